#!/usr/bin/env python3
"""Prints the per-property size table of DESIGN.md section 4 from the evidence files
(quick: evidence/<id>.json, thorough: evidence/thorough/<id>.json)."""
import json, os

def size(e):
    c = e['coverage']
    parts = []
    def add(k, label):
        v = c.get(k)
        if isinstance(v, int) and v:
            parts.append('{:,} {}'.format(v, label).replace(',', ' '))
    add('schedules', 'schedules')
    add('model_states', 'model states')
    if e['property_id'] == 'C19':
        add('states', 'model states')
        add('transitions', 'model transitions')
    add('model_transitions', 'model transitions replayed')
    add('call_sequences', 'call sequences')
    add('scripted_histories', 'scripted histories')
    add('sequential_cases', 'sequential cases')
    add('forked_process_cases', 'forked-process cases')
    add('forked_process_packet_interleavings', 'gated packet interleavings')
    inproc = sum(v for k, v in c.items() if k.startswith('inproc.') and k.endswith('schedules') and isinstance(v, int))
    if inproc:
        parts.append('{} of the schedules on the in-process build'.format(inproc))
    tot = c.get('evaluations')
    s = '{:,} evaluations'.format(tot).replace(',', ' ') if isinstance(tot, int) else ''
    if parts:
        s += ' (' + '; '.join(parts) + ')'
    if c.get('exhaustive') is False:
        s += ' [a cap was hit: see evidence]'
    return s, e['wall_s']

rows = []
for i in range(1, 21):
    p = 'C%02d' % i
    q = json.load(open('/verif/evidence/%s.json' % p))
    tpath = '/verif/evidence/thorough/%s.json' % p
    t = json.load(open(tpath)) if os.path.exists(tpath) else None
    qs, qw = size(q)
    if q['tier'] != 'quick':
        qs = '(evidence/%s.json is from a %s run) ' % (p, q['tier']) + qs
    ts, tw = size(t) if t else ('-', 0)
    rows.append('| %s | %s | %s, %.0f s | %s, %.0f s |' % (p, q['level'], qs, qw, ts, tw))
print('| id | level | quick tier | thorough tier |')
print('|---|---|---|---|')
print('\n'.join(rows))
