//! vcheck — model-checking harness for the 20 properties of ipc-channel.
//! See /verif/DESIGN.md.

mod common;
mod exec;
mod explore;
mod interpose;
mod model;
mod props;
mod raw;
mod sched;

use common::Tier;

fn usage() -> ! {
    eprintln!("usage: vcheck <C01..C20> [--tier quick|thorough] | vcheck selftest | vcheck replay <file> | vcheck --list-fds");
    std::process::exit(2)
}

fn main() {
    let args: Vec<String> = std::env::args().collect();
    if args.len() < 2 {
        usage();
    }
    if args[1] == "--list-fds" {
        // used by C11: what does an exec'ed child inherit?
        for (fd, t) in interpose::proc_fds() {
            println!("{} {}", fd, t);
        }
        return;
    }
    let mut tier = match std::env::var("VERIF_TIER").as_deref() {
        Ok("thorough") => Tier::Thorough,
        _ => Tier::Quick,
    };
    let mut i = 2;
    let mut rest = Vec::new();
    while i < args.len() {
        if args[i] == "--tier" && i + 1 < args.len() {
            tier = if args[i + 1] == "thorough" { Tier::Thorough } else { Tier::Quick };
            i += 2;
        } else {
            rest.push(args[i].clone());
            i += 1;
        }
    }
    let code = match args[1].as_str() {
        "selftest" => props::selftest::run(),
        "replay" => {
            if rest.is_empty() {
                usage();
            }
            props::replay(&rest[0])
        },
        id => props::run(id, tier, &rest),
    };
    std::process::exit(code);
}
