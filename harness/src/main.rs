//! vcheck — model-checking harness for the 20 properties of ipc-channel.
//! See /verif/DESIGN.md.

mod common;
mod exec;
mod explore;
mod interpose;
mod model;
mod pmodel;
mod props;
mod raw;
mod sched;

use common::Tier;

/// Allocator wrapper: fills every fresh allocation with a byte chosen per run (0 = leave alone).
/// A received byte that the transport never wrote cannot equal the expected byte under two
/// different fills (C18).
pub struct FillAlloc;
pub static FILL: std::sync::atomic::AtomicU8 = std::sync::atomic::AtomicU8::new(0);

/// Requests above this size are refused (null), as an allocator of a finite machine would: a
/// length taken from untrusted bytes and turned into an allocation then fails the same way on
/// every run instead of exhausting the sandbox. Nothing the checks send comes near it.
pub const ALLOC_CAP: usize = 1 << 30;

unsafe impl std::alloc::GlobalAlloc for FillAlloc {
    unsafe fn alloc(&self, l: std::alloc::Layout) -> *mut u8 {
        if l.size() > ALLOC_CAP {
            return std::ptr::null_mut();
        }
        let p = std::alloc::System.alloc(l);
        let f = FILL.load(std::sync::atomic::Ordering::Relaxed);
        if f != 0 && !p.is_null() {
            std::ptr::write_bytes(p, f, l.size());
        }
        p
    }
    unsafe fn dealloc(&self, p: *mut u8, l: std::alloc::Layout) {
        std::alloc::System.dealloc(p, l)
    }
    unsafe fn alloc_zeroed(&self, l: std::alloc::Layout) -> *mut u8 {
        if l.size() > ALLOC_CAP {
            return std::ptr::null_mut();
        }
        std::alloc::System.alloc_zeroed(l)
    }
    unsafe fn realloc(&self, p: *mut u8, l: std::alloc::Layout, n: usize) -> *mut u8 {
        if n > ALLOC_CAP {
            return std::ptr::null_mut();
        }
        let q = std::alloc::System.realloc(p, l, n);
        let f = FILL.load(std::sync::atomic::Ordering::Relaxed);
        if f != 0 && !q.is_null() && n > l.size() {
            std::ptr::write_bytes(q.add(l.size()), f, n - l.size());
        }
        q
    }
}

#[global_allocator]
static GLOBAL: FillAlloc = FillAlloc;

fn usage() -> ! {
    eprintln!("usage: vcheck <C01..C20> [--tier quick|thorough] | vcheck selftest | vcheck replay <file> | vcheck --list-fds");
    std::process::exit(2)
}

fn main() {
    let args: Vec<String> = std::env::args().collect();
    if args.len() < 2 {
        usage();
    }
    if args[1] == "--list-fds" {
        // used by C11: what does an exec'ed child inherit?
        for (fd, t) in interpose::proc_fds() {
            println!("{} {}", fd, t);
        }
        return;
    }
    if args[1] == "--idle" {
        // used by C03: an unrelated exec'ed child that stays alive until its stdin is closed
        use std::io::{Read, Write};
        println!("ready");
        let _ = std::io::stdout().flush();
        let mut b = Vec::new();
        let _ = std::io::stdin().read_to_end(&mut b);
        return;
    }
    if args[1] == "--oneshot-client" {
        // used by C08: a client that is a separately exec'ed process
        let n: usize = args.get(3).and_then(|s| s.parse().ok()).unwrap_or(1);
        let big_every: usize = args.get(4).and_then(|s| s.parse().ok()).unwrap_or(0);
        std::process::exit(props::c08::client_main(&args[2], n, big_every));
    }
    let mut tier = match std::env::var("VERIF_TIER").as_deref() {
        Ok("thorough") => Tier::Thorough,
        _ => Tier::Quick,
    };
    let mut i = 2;
    let mut rest = Vec::new();
    while i < args.len() {
        if args[i] == "--tier" && i + 1 < args.len() {
            tier = if args[i + 1] == "thorough" { Tier::Thorough } else { Tier::Quick };
            i += 2;
        } else {
            rest.push(args[i].clone());
            i += 1;
        }
    }
    let code = match args[1].as_str() {
        "selftest" => props::selftest::run(),
        "modelsize" => {
            // sizes of the reference-model graphs under various bounds (no library calls)
            for (n, d, ms) in [(2usize, 12usize, 200000usize), (3, 4, 200000), (3, 5, 200000)] {
                let t = std::time::Instant::now();
                let g = props::c03::bfs(n, d, 2, 4, true, ms);
                println!("C03 nchan={} depth<={}: states={} transitions={} depth={} closed={} ({:.1}s)", n, d, g.states, g.paths.len(), g.depth_reached, g.closed, t.elapsed().as_secs_f64());
            }
            for (mc, d, ms) in [(2usize, 5usize, 200000usize), (2, 6, 200000), (2, 7, 200000), (3, 6, 200000)] {
                let t = std::time::Instant::now();
                let g = props::c19::bfs(mc, d, ms);
                println!("C19 max_chans={} depth<={}: states={} transitions={} depth={} closed={} ({:.1}s)", mc, d, g.states, g.paths.len(), g.depth, g.closed, t.elapsed().as_secs_f64());
            }
            0
        },
        "replay" => {
            if rest.is_empty() {
                usage();
            }
            props::replay(&rest[0])
        },
        id => props::run(id, tier, &rest),
    };
    std::process::exit(code);
}
