//! E3 — abstract model of the packet-level protocol (C02): first packets on the shared
//! socket, follow-up packets on a per-message dedicated socket whose receive end rides in the
//! first packet. Explicit-state search of the full interleaving graph for a configuration
//! (<=3 senders x <=2 messages x <=3 packets), and the mapping that steps real system-call
//! traces through the model (impl subset-of model, premises validated, coverage measured).
#![allow(dead_code)]

use crate::interpose::TraceEntry;
use std::collections::{BTreeMap, HashMap, HashSet, VecDeque};
use std::hash::{Hash, Hasher};

pub const MAXM: usize = 2;

#[derive(Clone, Copy, Debug, PartialEq, Eq, Hash)]
pub enum PAct {
    Create(u8),
    First(u8),
    Follow(u8),
    Close(u8),
    RecvFirst,
    RecvFollow,
}

#[derive(Clone, Debug, PartialEq, Eq, Hash)]
pub struct PState {
    /// per sender: (current message index, phase): phase 0 = not begun, 1 = dedicated socket
    /// created, 2 + k = first packet and k follow-ups sent
    pub snd: Vec<(u8, u8)>,
    pub main_q: Vec<(u8, u8)>,
    /// follow-up packets sent so far per message (their FIFO lives on the message's own socket)
    pub ded_sent: BTreeMap<(u8, u8), u8>,
    /// message being reassembled: (sender, msg, follow-ups received)
    pub rcv: Option<(u8, u8, u8)>,
    pub delivered: Vec<(u8, u8)>,
    /// bit per message: its send has returned
    pub returned: u32,
    /// per message: the messages whose send had returned when this one began (MAX = not begun)
    pub preds: Vec<u32>,
}

#[derive(Clone, Debug)]
pub struct Config {
    /// packets[s][m]
    pub packets: Vec<Vec<u8>>,
}

fn mid(s: u8, m: u8) -> usize {
    s as usize * MAXM + m as usize
}

impl Config {
    pub fn initial(&self) -> PState {
        PState {
            snd: vec![(0, 0); self.packets.len()],
            main_q: vec![],
            ded_sent: BTreeMap::new(),
            rcv: None,
            delivered: vec![],
            returned: 0,
            preds: vec![u32::MAX; self.packets.len() * MAXM],
        }
    }

    pub fn enabled(&self, st: &PState) -> Vec<PAct> {
        let mut v = Vec::new();
        for (s, &(m, ph)) in st.snd.iter().enumerate() {
            let s8 = s as u8;
            if (m as usize) >= self.packets[s].len() {
                continue;
            }
            let p = self.packets[s][m as usize];
            // (creating the dedicated socket is folded into the first packet, closing it into the
            // last follow-up: neither is observable by any other participant)
            if p == 1 || ph == 0 {
                v.push(PAct::First(s8));
            } else {
                v.push(PAct::Follow(s8));
            }
        }
        match st.rcv {
            None => {
                if !st.main_q.is_empty() {
                    v.push(PAct::RecvFirst);
                }
            },
            Some((s, m, got)) => {
                if st.ded_sent.get(&(s, m)).copied().unwrap_or(0) > got {
                    v.push(PAct::RecvFollow);
                }
            },
        }
        v
    }

    /// apply an action; Err = invariant violated by this transition
    pub fn step(&self, st: &PState, a: PAct) -> Result<PState, String> {
        let mut n = st.clone();
        let begin = |n: &mut PState, s: u8, m: u8| {
            if n.preds[mid(s, m)] == u32::MAX {
                n.preds[mid(s, m)] = n.returned;
            }
        };
        let deliver = |n: &mut PState, s: u8, m: u8| -> Result<(), String> {
            if n.delivered.contains(&(s, m)) {
                return Err(format!("message ({},{}) delivered twice", s, m));
            }
            let preds = n.preds[mid(s, m)];
            for (ds, dm) in (0..n.snd.len() as u8).flat_map(|x| (0..MAXM as u8).map(move |y| (x, y))) {
                if preds != u32::MAX && preds & (1 << mid(ds, dm)) != 0 && !n.delivered.contains(&(ds, dm)) {
                    return Err(format!("message ({},{}) delivered before ({},{}) whose send had returned before it began", s, m, ds, dm));
                }
            }
            if m > 0 && !n.delivered.contains(&(s, m - 1)) {
                return Err(format!("sender {}: message {} delivered before message {}", s, m, m - 1));
            }
            n.delivered.push((s, m));
            Ok(())
        };
        match a {
            PAct::Create(_) | PAct::Close(_) => {},
            PAct::First(s) => {
                let (m, _) = n.snd[s as usize];
                begin(&mut n, s, m);
                n.main_q.push((s, m));
                if self.packets[s as usize][m as usize] == 1 {
                    n.returned |= 1 << mid(s, m);
                    n.snd[s as usize] = (m + 1, 0);
                } else {
                    n.snd[s as usize].1 = 2;
                }
            },
            PAct::Follow(s) => {
                let (m, ph) = n.snd[s as usize];
                *n.ded_sent.entry((s, m)).or_insert(0) += 1;
                if ph - 2 + 1 == self.packets[s as usize][m as usize] - 1 {
                    n.returned |= 1 << mid(s, m);
                    n.snd[s as usize] = (m + 1, 0);
                } else {
                    n.snd[s as usize].1 = ph + 1;
                }
            },
            PAct::RecvFirst => {
                let (s, m) = n.main_q.remove(0);
                if self.packets[s as usize][m as usize] == 1 {
                    deliver(&mut n, s, m)?;
                } else {
                    n.rcv = Some((s, m, 0));
                }
            },
            PAct::RecvFollow => {
                let (s, m, got) = n.rcv.unwrap();
                let got = got + 1;
                if got == self.packets[s as usize][m as usize] - 1 {
                    n.rcv = None;
                    deliver(&mut n, s, m)?;
                } else {
                    n.rcv = Some((s, m, got));
                }
            },
        }
        Ok(n)
    }

    pub fn total_messages(&self) -> usize {
        self.packets.iter().map(|p| p.len()).sum()
    }
}

pub fn hash_state(s: &PState) -> u64 {
    let mut h = std::collections::hash_map::DefaultHasher::new();
    s.hash(&mut h);
    h.finish()
}

pub struct GraphStats {
    pub states: usize,
    pub transitions: usize,
    pub terminals: usize,
    pub violations: Vec<String>,
    /// (state hash, action) of every transition
    pub edges: HashSet<(u64, PAct)>,
}

/// full interleaving graph of the configuration
pub fn explore(cfg: &Config) -> GraphStats {
    let s0 = cfg.initial();
    let mut seen: HashMap<PState, ()> = HashMap::new();
    seen.insert(s0.clone(), ());
    let mut fr = VecDeque::new();
    fr.push_back(s0);
    let mut g = GraphStats { states: 0, transitions: 0, terminals: 0, violations: vec![], edges: HashSet::new() };
    while let Some(st) = fr.pop_front() {
        let acts = cfg.enabled(&st);
        if acts.is_empty() {
            g.terminals += 1;
            if st.delivered.len() != cfg.total_messages() {
                g.violations.push(format!("terminal state with {} of {} messages delivered", st.delivered.len(), cfg.total_messages()));
            }
        }
        let h = hash_state(&st);
        for a in acts {
            g.transitions += 1;
            g.edges.insert((h, a));
            match cfg.step(&st, a) {
                Ok(n) => {
                    if !seen.contains_key(&n) {
                        seen.insert(n.clone(), ());
                        fr.push_back(n);
                    }
                },
                Err(e) => {
                    if g.violations.len() < 5 {
                        g.violations.push(e);
                    }
                },
            }
        }
    }
    g.states = seen.len();
    g
}

/// Step a real system-call trace through the model. Sender task t (t >= 1) is model sender t-1;
/// task 0 is the receiver. Returns the covered (state, action) edges and the delivery order.
pub fn validate_trace(cfg: &Config, trace: &[TraceEntry]) -> Result<(Vec<(u64, PAct)>, Vec<(u8, u8)>), String> {
    let n = cfg.packets.len() as i32;
    let mut st = cfg.initial();
    let mut edges = Vec::new();
    let mut main_obj: Option<u64> = None;
    // dedicated socket object of the message a sender is currently transmitting / of each message
    let mut cur_ded: Vec<Option<u64>> = vec![None; n as usize];
    let mut last_pair: Vec<Option<u64>> = vec![None; n as usize];
    let mut ded_of_msg: BTreeMap<(u8, u8), u64> = BTreeMap::new();
    let mut apply = |st: &mut PState, a: PAct, k: usize, e: &TraceEntry| -> Result<(), String> {
        if !cfg.enabled(st).contains(&a) {
            return Err(format!("trace entry {} (task {} {} obj {:x} -> {}) maps to {:?}, which the packet protocol model does not allow here", k, e.task, e.call, e.obj, e.res, a));
        }
        edges.push((hash_state(st), a));
        *st = cfg.step(st, a).map_err(|x| format!("model invariant broken while following the real trace at entry {}: {}", k, x))?;
        Ok(())
    };
    for (k, e) in trace.iter().enumerate() {
        let t = e.task;
        if t >= 1 && t <= n {
            let s = (t - 1) as u8;
            match e.call.as_str() {
                "socketpair" => {
                    // candidate only: the lazily computed buffer size also creates (and at once
                    // closes) a socket pair; it becomes this message's dedicated socket when its
                    // receive end shows up attached to the first packet
                    last_pair[s as usize] = Some(e.obj);
                },
                "sendmsg" => {
                    if e.res <= 0 {
                        return Err(format!("trace entry {}: first packet of sender {} failed ({})", k, s, e.res));
                    }
                    match main_obj {
                        None => main_obj = Some(e.obj),
                        Some(o) if o == e.obj => {},
                        Some(_) => return Err(format!("trace entry {}: sender {} used sendmsg on a second object {:x}", k, s, e.obj)),
                    }
                    let (m, _) = st.snd[s as usize];
                    let want_tag = (s as u64) | ((m as u64) << 32);
                    if e.tag2 != want_tag {
                        return Err(format!("trace entry {}: first packet carries tag {:x}, the model expects message ({},{})", k, e.tag2, s, m));
                    }
                    if cfg.packets[s as usize][m as usize] > 1 {
                        let d = last_pair[s as usize].ok_or_else(|| format!("trace entry {}: multi-packet first packet without a dedicated socket", k))?;
                        if !e.att.iter().any(|(o, end)| *o == d && *end == 1) {
                            return Err(format!("trace entry {}: the first packet of ({},{}) does not carry the receive end of its dedicated socket", k, s, m));
                        }
                        cur_ded[s as usize] = Some(d);
                        ded_of_msg.insert((s, m), d);
                    }
                    apply(&mut st, PAct::First(s), k, e)?;
                },
                "send" => {
                    if e.res <= 0 {
                        return Err(format!("trace entry {}: follow-up packet of sender {} failed ({})", k, s, e.res));
                    }
                    if Some(e.obj) != cur_ded[s as usize] {
                        return Err(format!("trace entry {}: sender {} sent a follow-up packet on object {:x}, not on its message's dedicated socket", k, s, e.obj));
                    }
                    apply(&mut st, PAct::Follow(s), k, e)?;
                },
                "close" => {
                    if Some(e.obj) == cur_ded[s as usize] && e.end == 0 {
                        cur_ded[s as usize] = None;
                    }
                },
                _ => {},
            }
        } else if t == 0 {
            match e.call.as_str() {
                "recvmsg" if e.res > 0 && Some(e.obj) == main_obj => {
                    let head = st.main_q.first().copied();
                    if let Some((s, m)) = head {
                        let want_tag = (s as u64) | ((m as u64) << 32);
                        if e.tag2 != want_tag {
                            return Err(format!("trace entry {}: the kernel delivered the first packet tagged {:x}, the model's shared-socket FIFO has ({},{}) at its head", k, e.tag2, s, m));
                        }
                    }
                    apply(&mut st, PAct::RecvFirst, k, e)?;
                },
                "recv" if e.res > 0 => {
                    if let Some((s, m, _)) = st.rcv {
                        if ded_of_msg.get(&(s, m)) != Some(&e.obj) {
                            return Err(format!("trace entry {}: follow-up read on object {:x}, not the dedicated socket of ({},{})", k, e.obj, s, m));
                        }
                    }
                    apply(&mut st, PAct::RecvFollow, k, e)?;
                },
                _ => {},
            }
        }
    }
    if !cfg.enabled(&st).is_empty() {
        return Err(format!("the real trace ends while the model still has enabled actions {:?}", cfg.enabled(&st)));
    }
    Ok((edges, st.delivered.clone()))
}

/// shortest action sequence from the initial state to every reachable state
pub fn shortest_paths(cfg: &Config) -> HashMap<u64, (PState, Vec<PAct>)> {
    let s0 = cfg.initial();
    let mut out: HashMap<u64, (PState, Vec<PAct>)> = HashMap::new();
    out.insert(hash_state(&s0), (s0.clone(), vec![]));
    let mut fr = VecDeque::new();
    fr.push_back(s0);
    while let Some(st) = fr.pop_front() {
        let path = out[&hash_state(&st)].1.clone();
        for a in cfg.enabled(&st) {
            if let Ok(n) = cfg.step(&st, a) {
                let h = hash_state(&n);
                if !out.contains_key(&h) {
                    let mut p = path.clone();
                    p.push(a);
                    out.insert(h, (n.clone(), p));
                    fr.push_back(n);
                }
            }
        }
    }
    out
}

/// extend a path to a terminal state by always taking the first enabled action
pub fn complete(cfg: &Config, st: &PState, path: &mut Vec<PAct>) {
    let mut cur = st.clone();
    loop {
        let en = cfg.enabled(&cur);
        let Some(a) = en.first().copied() else { break };
        path.push(a);
        match cfg.step(&cur, a) {
            Ok(n) => cur = n,
            Err(_) => break,
        }
    }
}

/// the scheduler directive for a model path: who performs each packet transmission / reception
pub fn directive_of(path: &[PAct]) -> Vec<u8> {
    path.iter()
        .filter_map(|a| match a {
            PAct::First(s) | PAct::Follow(s) => Some(*s + 1),
            PAct::RecvFirst | PAct::RecvFollow => Some(0),
            PAct::Create(_) | PAct::Close(_) => None,
        })
        .collect()
}

pub fn project(path: &[PAct]) -> Vec<PAct> {
    path.iter().filter(|a| !matches!(a, PAct::Create(_) | PAct::Close(_))).copied().collect()
}
