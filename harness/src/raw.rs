//! Raw system calls (x86-64 Linux). The harness defines the libc symbols the
//! library calls (see `interpose.rs`); these are what those definitions forward
//! to, so glibc's wrappers are bypassed instead of recursed into.
#![allow(dead_code)]
use std::arch::asm;

#[inline(always)]
pub unsafe fn sc6(n: i64, a1: usize, a2: usize, a3: usize, a4: usize, a5: usize, a6: usize) -> isize {
    let ret: isize;
    asm!(
        "syscall",
        inlateout("rax") n as isize => ret,
        in("rdi") a1,
        in("rsi") a2,
        in("rdx") a3,
        in("r10") a4,
        in("r8") a5,
        in("r9") a6,
        lateout("rcx") _,
        lateout("r11") _,
        options(nostack)
    );
    ret
}

#[inline(always)]
pub unsafe fn sc3(n: i64, a1: usize, a2: usize, a3: usize) -> isize {
    sc6(n, a1, a2, a3, 0, 0, 0)
}

#[inline(always)]
pub fn is_err(r: isize) -> bool {
    (-4095..0).contains(&r)
}

pub unsafe fn set_errno(e: i32) {
    *libc::__errno_location() = e;
}

/// Convert a raw kernel return value to the libc convention (-1 + errno).
#[inline(always)]
pub unsafe fn cvt(r: isize) -> isize {
    if is_err(r) {
        set_errno((-r) as i32);
        -1
    } else {
        r
    }
}

pub unsafe fn futex_wait(addr: *const u32, val: u32) {
    sc6(
        libc::SYS_futex,
        addr as usize,
        (libc::FUTEX_WAIT | libc::FUTEX_PRIVATE_FLAG) as usize,
        val as usize,
        0,
        0,
        0,
    );
}

pub unsafe fn futex_wake(addr: *const u32, n: i32) {
    sc6(
        libc::SYS_futex,
        addr as usize,
        (libc::FUTEX_WAKE | libc::FUTEX_PRIVATE_FLAG) as usize,
        n as usize,
        0,
        0,
        0,
    );
}

pub unsafe fn close(fd: i32) -> isize {
    sc3(libc::SYS_close, fd as usize, 0, 0)
}

pub unsafe fn write(fd: i32, buf: &[u8]) -> isize {
    sc3(libc::SYS_write, fd as usize, buf.as_ptr() as usize, buf.len())
}

pub unsafe fn write_all(fd: i32, mut buf: &[u8]) -> bool {
    while !buf.is_empty() {
        let r = write(fd, buf);
        if r == -(libc::EINTR as isize) {
            continue;
        }
        if r <= 0 {
            return false;
        }
        buf = &buf[r as usize..];
    }
    true
}

pub unsafe fn read(fd: i32, buf: &mut [u8]) -> isize {
    sc3(libc::SYS_read, fd as usize, buf.as_mut_ptr() as usize, buf.len())
}

pub unsafe fn exit_group(code: i32) -> ! {
    sc3(libc::SYS_exit_group, code as usize, 0, 0);
    loop {}
}

pub unsafe fn getpid() -> i32 {
    sc3(libc::SYS_getpid, 0, 0, 0) as i32
}

pub unsafe fn gettid() -> i32 {
    sc3(libc::SYS_gettid, 0, 0, 0) as i32
}

pub unsafe fn kill(pid: i32, sig: i32) -> isize {
    sc3(libc::SYS_kill, pid as usize, sig as usize, 0)
}

pub unsafe fn poll(fds: *mut libc::pollfd, n: usize, timeout: i32) -> isize {
    sc3(libc::SYS_poll, fds as usize, n, timeout as usize)
}

/// poll one fd with zero timeout, return revents (0 if nothing, or on error POLLNVAL-like)
pub unsafe fn poll1(fd: i32, events: i16) -> i16 {
    let mut p = libc::pollfd { fd, events, revents: 0 };
    loop {
        let r = poll(&mut p, 1, 0);
        if r == -(libc::EINTR as isize) {
            continue;
        }
        if r < 0 {
            return libc::POLLNVAL;
        }
        return p.revents;
    }
}

pub unsafe fn fcntl(fd: i32, cmd: i32, arg: usize) -> isize {
    sc3(libc::SYS_fcntl, fd as usize, cmd as usize, arg)
}

pub unsafe fn ioctl(fd: i32, req: usize, arg: usize) -> isize {
    sc3(libc::SYS_ioctl, fd as usize, req, arg)
}

pub unsafe fn getsockopt_int(fd: i32, level: i32, name: i32) -> Result<i32, i32> {
    let mut v: i32 = 0;
    let mut l: u32 = 4;
    let r = sc6(
        libc::SYS_getsockopt,
        fd as usize,
        level as usize,
        name as usize,
        &mut v as *mut _ as usize,
        &mut l as *mut _ as usize,
        0,
    );
    if is_err(r) {
        Err((-r) as i32)
    } else {
        Ok(v)
    }
}

pub unsafe fn fstat(fd: i32) -> Option<libc::stat> {
    let mut st = std::mem::MaybeUninit::<libc::stat>::uninit();
    let r = sc3(libc::SYS_fstat, fd as usize, st.as_mut_ptr() as usize, 0);
    if is_err(r) {
        None
    } else {
        Some(st.assume_init())
    }
}

pub unsafe fn clock_gettime(clk: i32, ts: *mut libc::timespec) -> isize {
    sc3(libc::SYS_clock_gettime, clk as usize, ts as usize, 0)
}

pub fn now_ns() -> u64 {
    unsafe {
        let mut ts = libc::timespec { tv_sec: 0, tv_nsec: 0 };
        clock_gettime(libc::CLOCK_MONOTONIC, &mut ts);
        ts.tv_sec as u64 * 1_000_000_000 + ts.tv_nsec as u64
    }
}
