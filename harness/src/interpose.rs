//! Link-time interposition of the libc entry points the library (and mio, std,
//! crossbeam, tempfile) use. Because the executable's own definitions win symbol
//! resolution, every call from statically linked Rust code lands here; each
//! definition forwards to the kernel with a raw `syscall` instruction.
//!
//! Until `activate()` is called everything is a pure pass-through (so the
//! single-threaded explorer parent, and process start-up, are untouched).
#![allow(clippy::missing_safety_doc, non_upper_case_globals, dead_code)]

use crate::raw::{self, cvt, is_err, sc3, sc6};
use crate::sched::{self, Decision, Op};
use libc::{c_char, c_int, c_long, c_void, msghdr, size_t, sockaddr, socklen_t, ssize_t};
use serde::{Deserialize, Serialize};
use std::collections::BTreeMap;
use std::sync::atomic::{AtomicBool, AtomicI64, AtomicU32, AtomicU64, AtomicUsize, Ordering};

// ---------------------------------------------------------------------------
// configuration and global state

#[derive(Clone, Debug, Default, Serialize, Deserialize)]
pub struct Cfg {
    /// E1: every visible operation is a scheduling point
    pub sched: bool,
    /// record the system-call log
    pub trace: bool,
    /// move every new descriptor above a rising floor so numbers are never reused
    pub noreuse: bool,
    /// getsockopt(SO_SNDBUF) reports this value (kernel buffer unchanged)
    pub fake_sndbuf: Option<usize>,
    /// every new socket gets SO_SNDBUF set so that the kernel reports (and enforces) this
    pub real_sndbuf: Option<usize>,
    /// bit n set: the n-th sendmsg/send attempt after `arm()` fails with ENOBUFS
    pub enobufs_mask: u64,
    /// die (SIGKILL) immediately before the k-th transport system call after `arm()`
    pub crash_at: Option<usize>,
    /// how many EINTR answers to epoll_wait the scheduler may inject per execution
    pub eintr_budget: u32,
    /// schedule prefix (choice indices); defaults (0) afterwards
    pub prefix: Vec<u8>,
    /// max scheduling points per execution
    pub horizon: usize,
    /// also make the return of every transmission a scheduling point, so that the user-space code
    /// that follows a send can be ordered after what the send woke up (needed where threads also
    /// communicate through user-space state: router, async routing thread)
    #[serde(default)]
    pub post_points: bool,
    /// directed mode (E3, model subset-of impl): the i-th successful packet transmission / reception
    /// must be performed by task directive[i]; that task runs alone until it has done it. After
    /// the directive is exhausted the default schedule applies.
    #[serde(default)]
    pub directive: Vec<u8>,
    /// count *every* non-default choice as a deviation, also the choice of which task continues
    /// when the running one blocks (used for wide scenarios with many tasks, where free switches
    /// alone make the schedule space explode)
    #[serde(default)]
    pub strict_deviations: bool,
    /// a task that yields may also simply continue (one deviation): explores spin-then-park
    /// back-offs parking before the other side acts. Off by default: a yield hands over.
    #[serde(default)]
    pub yield_alts: bool,
}

pub static ACTIVE: AtomicBool = AtomicBool::new(false);
static SCHED: AtomicBool = AtomicBool::new(false);
static TRACE: AtomicBool = AtomicBool::new(false);
static NOREUSE: AtomicBool = AtomicBool::new(false);
static POST_POINTS: AtomicBool = AtomicBool::new(false);
static FAKE_SNDBUF: AtomicUsize = AtomicUsize::new(0);
static REAL_SNDBUF: AtomicUsize = AtomicUsize::new(0);
static ENOBUFS_MASK: AtomicU64 = AtomicU64::new(0);
static CRASH_AT: AtomicI64 = AtomicI64::new(-1);
static ARMED: AtomicBool = AtomicBool::new(false);
static SEND_ATTEMPTS: AtomicUsize = AtomicUsize::new(0);
static TRANSPORT_CALLS: AtomicUsize = AtomicUsize::new(0);
static FD_FLOOR: AtomicI64 = AtomicI64::new(400);
/// virtual clock offset in ns (advanced when a virtual timer fires)
pub static CLOCK_SKEW_NS: AtomicU64 = AtomicU64::new(0);

#[derive(Clone, Copy, Debug, PartialEq, Eq, Serialize, Deserialize)]
pub enum Kind {
    Sock,
    Listener,
    Epoll,
    Shm,
    Other,
}

#[derive(Clone, Debug, Serialize, Deserialize)]
pub struct FdInfo {
    pub kind: Kind,
    /// canonical object id (socket pairs share one id; `end` tells the ends apart)
    pub obj: u64,
    pub end: u8,
    /// close-on-exec was set by the creating call itself
    pub cloexec0: bool,
    pub origin: String,
}

#[derive(Clone, Debug, Serialize, Deserialize)]
pub struct TraceEntry {
    pub task: i32,
    pub call: String,
    pub fd: i32,
    pub obj: u64,
    pub end: u8,
    pub len: i64,
    pub res: i64,
    /// objects of descriptors attached (sendmsg) or received (recvmsg)
    pub att: Vec<(u64, u8)>,
    /// first 8 payload bytes after the header (tag), for model conformance
    pub tag: u64,
    /// payload bytes 8..16
    #[serde(default)]
    pub tag2: u64,
}

#[derive(Clone, Debug, Serialize, Deserialize)]
pub struct LedgerEvent {
    pub what: String,
    pub fd: i32,
    pub detail: String,
}

#[derive(Default)]
pub struct State {
    pub fds: BTreeMap<i32, FdInfo>,
    pub ino2obj: BTreeMap<u64, (u64, u8)>,
    pub next_obj: BTreeMap<i32, u32>,
    /// things the C11 oracle cares about: EBADF closes, closes of unknown descriptors,
    /// descriptors created without close-on-exec
    pub anomalies: Vec<LedgerEvent>,
    pub trace: Vec<TraceEntry>,
    /// shared mappings: addr -> len
    pub maps: BTreeMap<usize, usize>,
    pub ctrunc_seen: u32,
    /// descriptors that were open when the execution started (the harness's own)
    pub protected: Vec<i32>,
    pub max_sent_packet: usize,
    pub min_recv_buf: usize,
    pub poll_timeouts: Vec<i32>,
}

struct Spin(AtomicU32);
impl Spin {
    fn lock(&self) {
        while self.0.compare_exchange_weak(0, 1, Ordering::Acquire, Ordering::Relaxed).is_err() {
            std::hint::spin_loop();
        }
    }
    fn unlock(&self) {
        self.0.store(0, Ordering::Release);
    }
}
static LOCK: Spin = Spin(AtomicU32::new(0));
static mut STATE: Option<State> = None;

pub fn with_state<R>(f: impl FnOnce(&mut State) -> R) -> R {
    LOCK.lock();
    #[allow(static_mut_refs)]
    let r = unsafe { f(STATE.get_or_insert_with(State::default)) };
    LOCK.unlock();
    r
}

std::thread_local! {
    pub static TASK: std::cell::Cell<i32> = const { std::cell::Cell::new(-1) };
}

pub fn cur_task() -> i32 {
    TASK.try_with(|t| t.get()).unwrap_or(-1)
}

/// >0 while the harness itself (not the library) is doing descriptor work
pub static HARNESS_SECTION: AtomicU32 = AtomicU32::new(0);

/// run harness-side code whose closes must not be attributed to the library
pub fn harness<R>(f: impl FnOnce() -> R) -> R {
    HARNESS_SECTION.fetch_add(1, Ordering::SeqCst);
    let r = f();
    HARNESS_SECTION.fetch_sub(1, Ordering::SeqCst);
    r
}

pub fn activate(cfg: &Cfg) {
    let prot: Vec<i32> = proc_fds().into_iter().map(|(f, _)| f).collect();
    with_state(|s| {
        *s = State::default();
        s.min_recv_buf = usize::MAX;
        s.protected = prot;
    });
    SCHED.store(cfg.sched, Ordering::SeqCst);
    TRACE.store(cfg.trace, Ordering::SeqCst);
    NOREUSE.store(cfg.noreuse, Ordering::SeqCst);
    POST_POINTS.store(cfg.post_points, Ordering::SeqCst);
    FAKE_SNDBUF.store(cfg.fake_sndbuf.unwrap_or(0), Ordering::SeqCst);
    REAL_SNDBUF.store(cfg.real_sndbuf.unwrap_or(0), Ordering::SeqCst);
    ENOBUFS_MASK.store(cfg.enobufs_mask, Ordering::SeqCst);
    CRASH_AT.store(cfg.crash_at.map(|k| k as i64).unwrap_or(-1), Ordering::SeqCst);
    ARMED.store(false, Ordering::SeqCst);
    if cfg.sched {
        sched::init(cfg);
    }
    ACTIVE.store(true, Ordering::SeqCst);
}

/// call first thing in a process forked from an execution: it is not under the scheduler
pub fn after_fork_in_child() {
    SCHED.store(false, Ordering::SeqCst);
    TASK.with(|t| t.set(-1));
}

pub fn deactivate() {
    ACTIVE.store(false, Ordering::SeqCst);
    SCHED.store(false, Ordering::SeqCst);
}

/// Start counting send attempts / transport calls for the fault plan and crash index.
pub fn arm() {
    SEND_ATTEMPTS.store(0, Ordering::SeqCst);
    TRANSPORT_CALLS.store(0, Ordering::SeqCst);
    ARMED.store(true, Ordering::SeqCst);
}
pub fn disarm() -> (usize, usize) {
    ARMED.store(false, Ordering::SeqCst);
    (SEND_ATTEMPTS.load(Ordering::SeqCst), TRANSPORT_CALLS.load(Ordering::SeqCst))
}
pub fn set_enobufs_mask(m: u64) {
    ENOBUFS_MASK.store(m, Ordering::SeqCst);
}
pub fn set_crash_at(k: Option<usize>) {
    CRASH_AT.store(k.map(|k| k as i64).unwrap_or(-1), Ordering::SeqCst);
}
pub fn die_now() -> ! {
    unsafe {
        raw::kill(raw::getpid(), libc::SIGKILL);
        raw::exit_group(137)
    }
}

#[inline]
fn active() -> bool {
    ACTIVE.load(Ordering::Relaxed)
}
#[inline]
fn sched_on() -> bool {
    // (harness sections -- spawning and waiting for an exec'ed child, reading /proc -- talk to
    // things that are outside the scheduler's world: plain pass-through there)
    SCHED.load(Ordering::Relaxed) && cur_task() >= 0 && HARNESS_SECTION.load(Ordering::Relaxed) == 0
}

fn transport_tick() {
    if ARMED.load(Ordering::Relaxed) {
        let n = TRANSPORT_CALLS.fetch_add(1, Ordering::SeqCst);
        let k = CRASH_AT.load(Ordering::Relaxed);
        if k >= 0 && n as i64 == k {
            die_now();
        }
    }
}

static GATE_R: AtomicI64 = AtomicI64::new(-1);
static GATE_W: AtomicI64 = AtomicI64::new(-1);

/// Gate mode (forked sender processes orchestrated at packet granularity): before every packet
/// transmission while armed, announce 'T' on `w` and wait for one byte on `r`.
pub fn set_gate(r: i32, w: i32) {
    GATE_R.store(r as i64, Ordering::SeqCst);
    GATE_W.store(w as i64, Ordering::SeqCst);
}

fn gate_point() {
    if !ARMED.load(Ordering::Relaxed) {
        return;
    }
    let w = GATE_W.load(Ordering::Relaxed);
    if w < 0 {
        return;
    }
    let r = GATE_R.load(Ordering::Relaxed);
    unsafe {
        raw::write_all(w as i32, b"T");
        let mut b = [0u8; 1];
        loop {
            let n = raw::read(r as i32, &mut b);
            if n == -(libc::EINTR as isize) {
                continue;
            }
            if n != 1 {
                // the orchestrator went away
                raw::exit_group(9);
            }
            break;
        }
    }
}

/// returns true if this send attempt must fail with ENOBUFS
fn send_fault() -> bool {
    if ARMED.load(Ordering::Relaxed) {
        let n = SEND_ATTEMPTS.fetch_add(1, Ordering::SeqCst);
        if n < 64 && (ENOBUFS_MASK.load(Ordering::Relaxed) >> n) & 1 == 1 {
            return true;
        }
    }
    false
}

// ---------------------------------------------------------------------------
// ledger helpers

unsafe fn ino_of(fd: c_int) -> u64 {
    raw::fstat(fd).map(|s| s.st_ino).unwrap_or(0)
}

fn new_obj(s: &mut State) -> u64 {
    let t = cur_task();
    let c = s.next_obj.entry(t).or_insert(0);
    *c += 1;
    (((t + 1) as u64) << 32) | *c as u64
}

unsafe fn has_cloexec(fd: c_int) -> bool {
    let r = raw::fcntl(fd, libc::F_GETFD, 0);
    r >= 0 && (r as i32 & libc::FD_CLOEXEC) != 0
}

/// In no-reuse mode: move `fd` to a fresh number above the floor, keeping its flags.
unsafe fn renumber(fd: c_int) -> c_int {
    if !NOREUSE.load(Ordering::Relaxed) || fd < 0 {
        return fd;
    }
    let floor = FD_FLOOR.fetch_add(1, Ordering::SeqCst);
    let cmd = if has_cloexec(fd) { libc::F_DUPFD_CLOEXEC } else { libc::F_DUPFD };
    let n = raw::fcntl(fd, cmd, floor as usize);
    if n < 0 {
        return fd;
    }
    FD_FLOOR.fetch_max(n as i64 + 1, Ordering::SeqCst);
    raw::close(fd);
    n as c_int
}

fn record_fd(fd: c_int, kind: Kind, obj: u64, end: u8, cloexec0: bool, origin: &str) {
    with_state(|s| {
        if !cloexec0 {
            s.anomalies.push(LedgerEvent {
                what: "no-cloexec".into(),
                fd,
                detail: format!("descriptor created by {} without close-on-exec", origin),
            });
        }
        if let Some(old) = s.fds.get(&fd) {
            s.anomalies.push(LedgerEvent {
                what: "reuse-of-open".into(),
                fd,
                detail: format!("kernel handed out fd {} that the ledger believes open ({})", fd, old.origin),
            });
        }
        s.fds.insert(fd, FdInfo { kind, obj, end, cloexec0, origin: origin.to_string() });
    });
}

unsafe fn adopt_unknown(fd: c_int, ctx: &str) -> Option<FdInfo> {
    // A descriptor the ledger never saw being created (memfd_create is issued with
    // inline asm by the `sc` crate; harness-owned descriptors are never adopted because
    // the harness does not route them through library calls).
    let st = raw::fstat(fd)?;
    let kind = if (st.st_mode & libc::S_IFMT) == libc::S_IFSOCK { Kind::Sock } else { Kind::Shm };
    let ce = has_cloexec(fd);
    let info = with_state(|s| {
        let obj = match s.ino2obj.get(&st.st_ino) {
            Some(&(o, _)) => o,
            None => {
                let o = new_obj(s);
                s.ino2obj.insert(st.st_ino, (o, 0));
                o
            },
        };
        let info = FdInfo { kind, obj, end: 0, cloexec0: ce, origin: format!("adopted@{}", ctx) };
        s.fds.insert(fd, info.clone());
        info
    });
    Some(info)
}

fn lookup(fd: c_int) -> Option<FdInfo> {
    with_state(|s| s.fds.get(&fd).cloned())
}

fn trace_push(call: &str, fd: c_int, len: i64, res: i64, att: Vec<(u64, u8)>, tag: u64) {
    trace_push2(call, fd, len, res, att, tag, 0)
}

fn trace_push2(call: &str, fd: c_int, len: i64, res: i64, att: Vec<(u64, u8)>, tag: u64, tag2: u64) {
    if !TRACE.load(Ordering::Relaxed) {
        return;
    }
    let info = lookup(fd);
    with_state(|s| {
        s.trace.push(TraceEntry {
            task: cur_task(),
            call: call.to_string(),
            fd,
            obj: info.as_ref().map(|i| i.obj).unwrap_or(0),
            end: info.as_ref().map(|i| i.end).unwrap_or(0),
            len,
            res,
            att,
            tag,
            tag2,
        })
    });
}

pub fn obj_of(fd: c_int) -> (u64, u8, Kind) {
    match lookup(fd) {
        Some(i) => (i.obj, i.end, i.kind),
        None => (0x8000_0000_0000_0000 | fd as u64, 0, Kind::Other),
    }
}

unsafe fn cmsg_fds(msg: *const msghdr) -> Vec<c_int> {
    let mut out = Vec::new();
    if msg.is_null() || (*msg).msg_control.is_null() || (*msg).msg_controllen < std::mem::size_of::<libc::cmsghdr>() {
        return out;
    }
    let mut c = libc::CMSG_FIRSTHDR(msg);
    while !c.is_null() {
        if (*c).cmsg_level == libc::SOL_SOCKET && (*c).cmsg_type == libc::SCM_RIGHTS {
            let n = ((*c).cmsg_len as usize - libc::CMSG_LEN(0) as usize) / 4;
            let d = libc::CMSG_DATA(c) as *const c_int;
            for i in 0..n {
                out.push(std::ptr::read_unaligned(d.add(i)));
            }
        }
        c = libc::CMSG_NXTHDR(msg, c);
    }
    out
}

unsafe fn iov_total(msg: *const msghdr) -> usize {
    let mut t = 0;
    for i in 0..(*msg).msg_iovlen as usize {
        t += (*(*msg).msg_iov.add(i)).iov_len;
    }
    t
}

unsafe fn iov_tag2(msg: *const msghdr) -> u64 {
    if (*msg).msg_iovlen >= 2 {
        let v = *(*msg).msg_iov.add(1);
        if v.iov_len >= 16 {
            return std::ptr::read_unaligned((v.iov_base as *const u8).add(8) as *const u64);
        }
    }
    0
}

unsafe fn iov_tag(msg: *const msghdr) -> u64 {
    // the library's first packet is iov[0]=8-byte length header, iov[1]=data
    if (*msg).msg_iovlen >= 2 {
        let v = *(*msg).msg_iov.add(1);
        if v.iov_len >= 8 {
            return std::ptr::read_unaligned(v.iov_base as *const u64);
        }
    }
    0
}

// ---------------------------------------------------------------------------
// AddressSanitizer: our definitions replace ASan's own interceptors for these calls, so the
// ranges the kernel may read or write are validated here (asan build only)

#[cfg(vcheck_asan)]
extern "C" {
    fn __asan_region_is_poisoned(beg: *const c_void, size: usize) -> *const c_void;
    fn __interceptor_pthread_create(th: *mut libc::pthread_t, attr: *const libc::pthread_attr_t, start: StartFn, arg: *mut c_void) -> c_int;
    fn __interceptor_pthread_join(th: libc::pthread_t, ret: *mut *mut c_void) -> c_int;
    fn __interceptor_mmap(addr: *mut c_void, len: size_t, prot: c_int, flags: c_int, fd: c_int, off: libc::off_t) -> *mut c_void;
    fn __interceptor_munmap(addr: *mut c_void, len: size_t) -> c_int;
}

#[allow(unused_variables)]
unsafe fn check_range(ptr: *const c_void, len: usize, what: &str) {
    #[cfg(vcheck_asan)]
    {
        if len == 0 || ptr.is_null() {
            return;
        }
        let bad = __asan_region_is_poisoned(ptr, len);
        if !bad.is_null() {
            let msg = format!(
                "ASAN-RANGE: {} hands the kernel [{:p}, +{}) but byte at offset {} is not addressable\n",
                what,
                ptr,
                len,
                bad as usize - ptr as usize
            );
            raw::write_all(2, msg.as_bytes());
            with_state(|s| s.anomalies.push(LedgerEvent { what: "asan-range".into(), fd: -1, detail: msg.clone() }));
            libc::abort();
        }
    }
}

unsafe fn check_msghdr(msg: *const msghdr, what: &str) {
    if msg.is_null() {
        return;
    }
    for i in 0..(*msg).msg_iovlen as usize {
        let v = *(*msg).msg_iov.add(i);
        check_range(v.iov_base, v.iov_len, what);
    }
    check_range((*msg).msg_control, (*msg).msg_controllen as usize, what);
}

// ---------------------------------------------------------------------------
// the interposed symbols

#[no_mangle]
pub unsafe extern "C" fn socketpair(domain: c_int, ty: c_int, proto: c_int, sv: *mut c_int) -> c_int {
    if !active() {
        return cvt(sc6(libc::SYS_socketpair, domain as usize, ty as usize, proto as usize, sv as usize, 0, 0)) as c_int;
    }
    transport_tick();
    let r = sc6(libc::SYS_socketpair, domain as usize, ty as usize, proto as usize, sv as usize, 0, 0);
    if !is_err(r) {
        let ce = ty & libc::SOCK_CLOEXEC != 0;
        let a = renumber(*sv);
        let b = renumber(*sv.add(1));
        *sv = a;
        *sv.add(1) = b;
        apply_real_sndbuf(a);
        apply_real_sndbuf(b);
        let (ia, ib) = (ino_of(a), ino_of(b));
        let obj = with_state(|s| {
            let o = new_obj(s);
            s.ino2obj.insert(ia, (o, 0));
            s.ino2obj.insert(ib, (o, 1));
            o
        });
        record_fd(a, Kind::Sock, obj, 0, ce, "socketpair");
        record_fd(b, Kind::Sock, obj, 1, ce, "socketpair");
        trace_push("socketpair", a, b as i64, 0, vec![], 0);
    }
    cvt(r) as c_int
}

unsafe fn apply_real_sndbuf(fd: c_int) {
    let s = REAL_SNDBUF.load(Ordering::Relaxed);
    if s != 0 {
        let v: c_int = (s / 2) as c_int;
        sc6(
            libc::SYS_setsockopt,
            fd as usize,
            libc::SOL_SOCKET as usize,
            libc::SO_SNDBUF as usize,
            &v as *const _ as usize,
            4,
            0,
        );
    }
}

#[no_mangle]
pub unsafe extern "C" fn socket(domain: c_int, ty: c_int, proto: c_int) -> c_int {
    let r = sc3(libc::SYS_socket, domain as usize, ty as usize, proto as usize);
    if !active() || is_err(r) {
        return cvt(r) as c_int;
    }
    let fd = renumber(r as c_int);
    apply_real_sndbuf(fd);
    let ino = ino_of(fd);
    let obj = with_state(|s| {
        let o = new_obj(s);
        s.ino2obj.insert(ino, (o, 0));
        o
    });
    record_fd(fd, Kind::Sock, obj, 0, ty & libc::SOCK_CLOEXEC != 0, "socket");
    trace_push("socket", fd, 0, 0, vec![], 0);
    fd
}

#[no_mangle]
pub unsafe extern "C" fn bind(fd: c_int, addr: *const sockaddr, len: socklen_t) -> c_int {
    cvt(sc3(libc::SYS_bind, fd as usize, addr as usize, len as usize)) as c_int
}

#[no_mangle]
pub unsafe extern "C" fn listen(fd: c_int, backlog: c_int) -> c_int {
    let r = sc3(libc::SYS_listen, fd as usize, backlog as usize, 0);
    if active() && !is_err(r) {
        with_state(|s| {
            if let Some(i) = s.fds.get_mut(&fd) {
                i.kind = Kind::Listener;
            }
        });
    }
    cvt(r) as c_int
}

unsafe fn do_accept(fd: c_int, addr: *mut sockaddr, len: *mut socklen_t, flags: c_int, name: &str) -> c_int {
    if !active() {
        return cvt(sc6(libc::SYS_accept4, fd as usize, addr as usize, len as usize, flags as usize, 0, 0)) as c_int;
    }
    let mut fl = flags;
    if sched_on() {
        match sched::point(Op::Recv { fd, nonblock: false }) {
            Decision::Proceed => {},
            _ => {},
        }
        fl |= libc::SOCK_NONBLOCK;
    }
    let r = sc6(libc::SYS_accept4, fd as usize, addr as usize, len as usize, fl as usize, 0, 0);
    if is_err(r) {
        if sched_on() {
            sched::step_done(Op::Recv { fd, nonblock: false }, r as i64);
        }
        return cvt(r) as c_int;
    }
    let mut nfd = r as c_int;
    if sched_on() && flags & libc::SOCK_NONBLOCK == 0 {
        // undo the non-blocking flag we added
        let f = raw::fcntl(nfd, libc::F_GETFL, 0);
        raw::fcntl(nfd, libc::F_SETFL, (f as usize) & !(libc::O_NONBLOCK as usize));
    }
    nfd = renumber(nfd);
    apply_real_sndbuf(nfd);
    let ino = ino_of(nfd);
    let obj = with_state(|s| {
        let o = new_obj(s);
        s.ino2obj.insert(ino, (o, 1));
        o
    });
    record_fd(nfd, Kind::Sock, obj, 1, flags & libc::SOCK_CLOEXEC != 0, name);
    trace_push(name, fd, 0, nfd as i64, vec![], 0);
    if sched_on() {
        sched::step_done(Op::Recv { fd, nonblock: false }, nfd as i64);
    }
    nfd
}

#[no_mangle]
pub unsafe extern "C" fn accept(fd: c_int, addr: *mut sockaddr, len: *mut socklen_t) -> c_int {
    do_accept(fd, addr, len, 0, "accept")
}

#[no_mangle]
pub unsafe extern "C" fn accept4(fd: c_int, addr: *mut sockaddr, len: *mut socklen_t, flags: c_int) -> c_int {
    do_accept(fd, addr, len, flags, "accept4")
}

#[no_mangle]
pub unsafe extern "C" fn connect(fd: c_int, addr: *const sockaddr, len: socklen_t) -> c_int {
    if active() && sched_on() {
        sched::point(Op::Other { fd, what: 1 });
    }
    let r = sc3(libc::SYS_connect, fd as usize, addr as usize, len as usize);
    if active() {
        trace_push("connect", fd, 0, r as i64, vec![], 0);
        if sched_on() {
            sched::step_done(Op::Other { fd, what: 1 }, r as i64);
        }
    }
    cvt(r) as c_int
}

unsafe fn fd_is_nonblocking(fd: c_int) -> bool {
    let f = raw::fcntl(fd, libc::F_GETFL, 0);
    f >= 0 && (f as i32 & libc::O_NONBLOCK) != 0
}

#[no_mangle]
pub unsafe extern "C" fn sendmsg(fd: c_int, msg: *const msghdr, flags: c_int) -> ssize_t {
    if !active() {
        return cvt(sc3(libc::SYS_sendmsg, fd as usize, msg as usize, flags as usize));
    }
    transport_tick();
    gate_point();
    check_msghdr(msg, "sendmsg");
    let total = iov_total(msg);
    let att_fds = cmsg_fds(msg);
    let att: Vec<(u64, u8)> = att_fds.iter().map(|&f| { let (o, e, _) = obj_of(f); (o, e) }).collect();
    let tag = iov_tag(msg);
    if send_fault() {
        trace_push("sendmsg!ENOBUFS", fd, total as i64, -(libc::ENOBUFS as i64), att, tag);
        raw::set_errno(libc::ENOBUFS);
        return -1;
    }
    let r = if sched_on() {
        let nb = flags & libc::MSG_DONTWAIT != 0 || fd_is_nonblocking(fd);
        let op = Op::Send { fd, nonblock: nb };
        let mut r;
        loop {
            sched::point(op);
            r = sc3(libc::SYS_sendmsg, fd as usize, msg as usize, (flags | libc::MSG_DONTWAIT) as usize);
            if r == -(libc::EAGAIN as isize) && !nb {
                sched::mismatch(op);
                continue;
            }
            break;
        }
        sched::step_done(op, r as i64);
        if POST_POINTS.load(Ordering::Relaxed) {
            sched::point(Op::After);
            sched::step_done(Op::After, 0);
        }
        r
    } else {
        sc3(libc::SYS_sendmsg, fd as usize, msg as usize, flags as usize)
    };
    if !is_err(r) {
        with_state(|s| s.max_sent_packet = s.max_sent_packet.max(total));
    }
    trace_push2("sendmsg", fd, total as i64, r as i64, att, tag, iov_tag2(msg));
    cvt(r)
}

#[no_mangle]
pub unsafe extern "C" fn send(fd: c_int, buf: *const c_void, len: size_t, flags: c_int) -> ssize_t {
    if !active() {
        return cvt(sc6(libc::SYS_sendto, fd as usize, buf as usize, len, flags as usize, 0, 0));
    }
    transport_tick();
    gate_point();
    check_range(buf, len, "send");
    let tag = if len >= 8 { std::ptr::read_unaligned(buf as *const u64) } else { 0 };
    if send_fault() {
        trace_push("send!ENOBUFS", fd, len as i64, -(libc::ENOBUFS as i64), vec![], tag);
        raw::set_errno(libc::ENOBUFS);
        return -1;
    }
    let r = if sched_on() {
        let nb = flags & libc::MSG_DONTWAIT != 0 || fd_is_nonblocking(fd);
        let op = Op::Send { fd, nonblock: nb };
        let mut r;
        loop {
            sched::point(op);
            r = sc6(libc::SYS_sendto, fd as usize, buf as usize, len, (flags | libc::MSG_DONTWAIT) as usize, 0, 0);
            if r == -(libc::EAGAIN as isize) && !nb {
                sched::mismatch(op);
                continue;
            }
            break;
        }
        sched::step_done(op, r as i64);
        if POST_POINTS.load(Ordering::Relaxed) {
            sched::point(Op::After);
            sched::step_done(Op::After, 0);
        }
        r
    } else {
        sc6(libc::SYS_sendto, fd as usize, buf as usize, len, flags as usize, 0, 0)
    };
    if !is_err(r) {
        with_state(|s| s.max_sent_packet = s.max_sent_packet.max(len));
    }
    trace_push("send", fd, len as i64, r as i64, vec![], tag);
    cvt(r)
}

#[no_mangle]
pub unsafe extern "C" fn recvmsg(fd: c_int, msg: *mut msghdr, flags: c_int) -> ssize_t {
    if !active() {
        return cvt(sc3(libc::SYS_recvmsg, fd as usize, msg as usize, flags as usize));
    }
    let cap = iov_total(msg);
    check_msghdr(msg, "recvmsg");
    let r = if sched_on() {
        let nb = flags & libc::MSG_DONTWAIT != 0 || fd_is_nonblocking(fd);
        let op = Op::Recv { fd, nonblock: nb };
        let ctl = (*msg).msg_controllen;
        let mut r;
        loop {
            sched::point(op);
            (*msg).msg_controllen = ctl;
            r = sc3(libc::SYS_recvmsg, fd as usize, msg as usize, (flags | libc::MSG_DONTWAIT) as usize);
            if r == -(libc::EAGAIN as isize) && !nb {
                sched::mismatch(op);
                continue;
            }
            break;
        }
        sched::step_done(op, r as i64);
        r
    } else {
        sc3(libc::SYS_recvmsg, fd as usize, msg as usize, flags as usize)
    };
    let mut att = Vec::new();
    if !is_err(r) {
        with_state(|s| s.min_recv_buf = s.min_recv_buf.min(cap));
        if (*msg).msg_flags & libc::MSG_CTRUNC != 0 {
            with_state(|s| s.ctrunc_seen += 1);
        }
        // register (and in no-reuse mode renumber) received descriptors
        if !(*msg).msg_control.is_null() && (*msg).msg_controllen >= std::mem::size_of::<libc::cmsghdr>() {
            let mut c = libc::CMSG_FIRSTHDR(msg);
            while !c.is_null() {
                if (*c).cmsg_level == libc::SOL_SOCKET && (*c).cmsg_type == libc::SCM_RIGHTS {
                    let n = ((*c).cmsg_len as usize - libc::CMSG_LEN(0) as usize) / 4;
                    let d = libc::CMSG_DATA(c) as *mut c_int;
                    for i in 0..n {
                        let f0 = std::ptr::read_unaligned(d.add(i));
                        let f = renumber(f0);
                        std::ptr::write_unaligned(d.add(i), f);
                        let st = raw::fstat(f);
                        let (ino, is_sock) = st
                            .map(|s| (s.st_ino, (s.st_mode & libc::S_IFMT) == libc::S_IFSOCK))
                            .unwrap_or((0, false));
                        let (obj, end) = with_state(|s| match s.ino2obj.get(&ino) {
                            Some(&x) => x,
                            None => {
                                let o = new_obj(s);
                                s.ino2obj.insert(ino, (o, 0));
                                (o, 0)
                            },
                        });
                        record_fd(
                            f,
                            if is_sock { Kind::Sock } else { Kind::Shm },
                            obj,
                            end,
                            flags & libc::MSG_CMSG_CLOEXEC != 0,
                            "recvmsg(SCM_RIGHTS)",
                        );
                        att.push((obj, end));
                    }
                }
                c = libc::CMSG_NXTHDR(msg, c);
            }
        }
    }
    let tag = if r >= 16 && (*msg).msg_iovlen >= 2 {
        std::ptr::read_unaligned((*(*msg).msg_iov.add(1)).iov_base as *const u64)
    } else {
        0
    };
    let tag2 = if r >= 24 && (*msg).msg_iovlen >= 2 { iov_tag2(msg) } else { 0 };
    trace_push2("recvmsg", fd, cap as i64, r as i64, att, tag, tag2);
    cvt(r)
}

#[no_mangle]
pub unsafe extern "C" fn recv(fd: c_int, buf: *mut c_void, len: size_t, flags: c_int) -> ssize_t {
    if !active() {
        return cvt(sc6(libc::SYS_recvfrom, fd as usize, buf as usize, len, flags as usize, 0, 0));
    }
    check_range(buf, len, "recv");
    let r = if sched_on() {
        let nb = flags & libc::MSG_DONTWAIT != 0 || fd_is_nonblocking(fd);
        let op = Op::Recv { fd, nonblock: nb };
        let mut r;
        loop {
            sched::point(op);
            r = sc6(libc::SYS_recvfrom, fd as usize, buf as usize, len, (flags | libc::MSG_DONTWAIT) as usize, 0, 0);
            if r == -(libc::EAGAIN as isize) && !nb {
                sched::mismatch(op);
                continue;
            }
            break;
        }
        sched::step_done(op, r as i64);
        r
    } else {
        sc6(libc::SYS_recvfrom, fd as usize, buf as usize, len, flags as usize, 0, 0)
    };
    let tag = if r >= 8 { std::ptr::read_unaligned(buf as *const u64) } else { 0 };
    if !is_err(r) {
        with_state(|s| s.min_recv_buf = s.min_recv_buf.min(len));
    }
    trace_push("recv", fd, len as i64, r as i64, vec![], tag);
    cvt(r)
}

#[no_mangle]
pub unsafe extern "C" fn close(fd: c_int) -> c_int {
    if !active() {
        return cvt(raw::close(fd)) as c_int;
    }
    let info = lookup(fd);
    let is_sock = matches!(info.as_ref().map(|i| i.kind), Some(Kind::Sock) | Some(Kind::Listener));
    if is_sock {
        transport_tick();
    }
    let visible = is_sock && sched_on();
    if visible {
        sched::point(Op::Close { fd });
    }
    let r = raw::close(fd);
    // (object identity is resolved through the ledger, so log before the entry is removed)
    trace_push("close", fd, 0, r as i64, vec![], 0);
    if visible {
        sched::step_done(Op::Close { fd }, r as i64);
    }
    let in_harness = HARNESS_SECTION.load(Ordering::Relaxed) > 0;
    with_state(|s| {
        if s.fds.remove(&fd).is_none() {
            // unknown to the ledger. EBADF: a double close or a stale number (numbers are never
            // reused in no-reuse mode). A descriptor that was open before the execution started
            // belongs to the harness: the library closed something it does not own. Anything else
            // was created through an un-interposed call (memfd_create via inline asm, openat by
            // std/tempfile) and is being closed by whoever opened it.
            if in_harness {
                // the harness's own business
            } else if is_err(r) {
                s.anomalies.push(LedgerEvent { what: "close-ebadf".into(), fd, detail: format!("close({}) -> {} (double or stale close)", fd, r) });
            } else if s.protected.contains(&fd) {
                s.anomalies.push(LedgerEvent { what: "close-foreign".into(), fd, detail: format!("close({}) of a descriptor the library never created or received", fd) });
            }
        } else if is_err(r) {
            s.anomalies.push(LedgerEvent { what: "close-error".into(), fd, detail: format!("close({}) -> {}", fd, r) });
        }
    });
    cvt(r) as c_int
}

#[no_mangle]
pub unsafe extern "C" fn dup(fd: c_int) -> c_int {
    let r = sc3(libc::SYS_dup, fd as usize, 0, 0);
    if !active() || is_err(r) {
        return cvt(r) as c_int;
    }
    let nfd = renumber(r as c_int);
    let info = match lookup(fd) {
        Some(i) => Some(i),
        None => adopt_unknown(fd, "dup"),
    };
    if let Some(i) = info {
        record_fd(nfd, i.kind, i.obj, i.end, false, "dup");
    } else {
        record_fd(nfd, Kind::Other, 0, 0, false, "dup");
    }
    nfd
}

unsafe fn do_fcntl(fd: c_int, cmd: c_int, arg: usize) -> c_int {
    let r = raw::fcntl(fd, cmd, arg);
    if active() && !is_err(r) && (cmd == libc::F_DUPFD || cmd == libc::F_DUPFD_CLOEXEC) {
        let nfd = renumber(r as c_int);
        let info = match lookup(fd) {
            Some(i) => Some(i),
            None => adopt_unknown(fd, "fcntl-dup"),
        };
        let ce = cmd == libc::F_DUPFD_CLOEXEC;
        if let Some(i) = info {
            record_fd(nfd, i.kind, i.obj, i.end, ce, "fcntl(F_DUPFD)");
        } else {
            record_fd(nfd, Kind::Other, 0, 0, ce, "fcntl(F_DUPFD)");
        }
        return nfd;
    }
    if active() && (cmd == libc::F_SETFL) {
        trace_push("fcntl(F_SETFL)", fd, arg as i64, r as i64, vec![], 0);
    }
    cvt(r) as c_int
}

#[no_mangle]
pub unsafe extern "C" fn fcntl(fd: c_int, cmd: c_int, arg: usize) -> c_int {
    do_fcntl(fd, cmd, arg)
}
#[no_mangle]
pub unsafe extern "C" fn fcntl64(fd: c_int, cmd: c_int, arg: usize) -> c_int {
    do_fcntl(fd, cmd, arg)
}

#[no_mangle]
pub unsafe extern "C" fn getsockopt(fd: c_int, level: c_int, name: c_int, val: *mut c_void, len: *mut socklen_t) -> c_int {
    let r = sc6(libc::SYS_getsockopt, fd as usize, level as usize, name as usize, val as usize, len as usize, 0);
    if active() && !is_err(r) && level == libc::SOL_SOCKET && name == libc::SO_SNDBUF {
        let f = FAKE_SNDBUF.load(Ordering::Relaxed);
        if f != 0 {
            // the library reads it into a usize (8 bytes, zero-initialised) with optlen 8
            *(val as *mut c_int) = f as c_int;
        }
    }
    cvt(r) as c_int
}

#[no_mangle]
pub unsafe extern "C" fn setsockopt(fd: c_int, level: c_int, name: c_int, val: *const c_void, len: socklen_t) -> c_int {
    cvt(sc6(libc::SYS_setsockopt, fd as usize, level as usize, name as usize, val as usize, len as usize, 0)) as c_int
}

#[no_mangle]
pub unsafe extern "C" fn poll(fds: *mut libc::pollfd, nfds: libc::nfds_t, timeout: c_int) -> c_int {
    if !active() {
        return cvt(raw::poll(fds, nfds as usize, timeout)) as c_int;
    }
    with_state(|s| s.poll_timeouts.push(timeout));
    if sched_on() && nfds == 1 {
        let fd = (*fds).fd;
        let op = Op::Poll { fd, events: (*fds).events, timeout };
        let d = sched::point(op);
        let r = match d {
            Decision::TimerFired => {
                (*fds).revents = 0;
                CLOCK_SKEW_NS.fetch_add(timeout.max(0) as u64 * 1_000_000, Ordering::SeqCst);
                0
            },
            _ => raw::poll(fds, 1, 0),
        };
        trace_push("poll", fd, timeout as i64, r as i64, vec![], 0);
        sched::step_done(op, r as i64);
        return cvt(r) as c_int;
    }
    if sched_on() && nfds > 1 {
        let op = Op::PollN { ptr: fds as usize, n: nfds as usize, timeout };
        let d = sched::point(op);
        let r = match d {
            Decision::TimerFired => {
                for i in 0..nfds as usize {
                    (*fds.add(i)).revents = 0;
                }
                CLOCK_SKEW_NS.fetch_add(timeout.max(0) as u64 * 1_000_000, Ordering::SeqCst);
                0
            },
            _ => raw::poll(fds, nfds as usize, 0),
        };
        sched::step_done(op, r as i64);
        return cvt(r) as c_int;
    }
    let r = raw::poll(fds, nfds as usize, timeout);
    if nfds >= 1 {
        trace_push("poll", (*fds).fd, timeout as i64, r as i64, vec![], 0);
    }
    cvt(r) as c_int
}

// read/write family on *sockets the ledger knows*: a refactoring may move packets with these instead
// of recv/send; everything else (files, pipes, stdio) is passed through untouched

unsafe fn is_ledger_socket(fd: c_int) -> bool {
    if !active() {
        return false;
    }
    matches!(lookup(fd).map(|i| i.kind), Some(Kind::Sock))
}

// Equivalent entry points a library might use instead (kept under the same control so that a
// behaviour-preserving switch between them does not take a blocking call out of the scheduler's
// sight): sendto/recvfrom without an address are send/recv; ppoll and epoll_pwait without a signal
// mask are poll and epoll_wait.
#[no_mangle]
pub unsafe extern "C" fn sendto(fd: c_int, buf: *const c_void, len: size_t, flags: c_int, addr: *const sockaddr, alen: socklen_t) -> ssize_t {
    if addr.is_null() {
        return send(fd, buf, len, flags);
    }
    cvt(sc6(libc::SYS_sendto, fd as usize, buf as usize, len, flags as usize, addr as usize, alen as usize)) as ssize_t
}

#[no_mangle]
pub unsafe extern "C" fn recvfrom(fd: c_int, buf: *mut c_void, len: size_t, flags: c_int, addr: *mut sockaddr, alen: *mut socklen_t) -> ssize_t {
    if addr.is_null() {
        return recv(fd, buf, len, flags);
    }
    cvt(sc6(libc::SYS_recvfrom, fd as usize, buf as usize, len, flags as usize, addr as usize, alen as usize)) as ssize_t
}

#[no_mangle]
pub unsafe extern "C" fn ppoll(fds: *mut libc::pollfd, nfds: libc::nfds_t, ts: *const libc::timespec, sigmask: *const libc::sigset_t) -> c_int {
    if !active() || !sigmask.is_null() {
        return cvt(sc6(libc::SYS_ppoll, fds as usize, nfds as usize, ts as usize, sigmask as usize, 8, 0)) as c_int;
    }
    let ms: c_int = if ts.is_null() {
        -1
    } else {
        let t = &*ts;
        let ns = t.tv_sec as i128 * 1_000_000_000 + t.tv_nsec as i128;
        let ms = (ns + 999_999) / 1_000_000;
        if ms > c_int::MAX as i128 { c_int::MAX } else { ms as c_int }
    };
    poll(fds, nfds, ms)
}

#[no_mangle]
pub unsafe extern "C" fn epoll_pwait(epfd: c_int, events: *mut libc::epoll_event, max: c_int, timeout: c_int, sigmask: *const libc::sigset_t) -> c_int {
    if !active() || !sigmask.is_null() {
        return cvt(sc6(libc::SYS_epoll_pwait, epfd as usize, events as usize, max as usize, timeout as usize, sigmask as usize, 8)) as c_int;
    }
    epoll_wait(epfd, events, max, timeout)
}

#[no_mangle]
pub unsafe extern "C" fn read(fd: c_int, buf: *mut c_void, len: size_t) -> ssize_t {
    if is_ledger_socket(fd) {
        return recv(fd, buf, len, 0);
    }
    cvt(sc3(libc::SYS_read, fd as usize, buf as usize, len))
}

#[no_mangle]
pub unsafe extern "C" fn write(fd: c_int, buf: *const c_void, len: size_t) -> ssize_t {
    if is_ledger_socket(fd) {
        return send(fd, buf, len, 0);
    }
    cvt(sc3(libc::SYS_write, fd as usize, buf as usize, len))
}

#[no_mangle]
pub unsafe extern "C" fn readv(fd: c_int, iov: *const libc::iovec, n: c_int) -> ssize_t {
    if is_ledger_socket(fd) {
        let mut m: msghdr = std::mem::zeroed();
        m.msg_iov = iov as *mut libc::iovec;
        m.msg_iovlen = n as _;
        return recvmsg(fd, &mut m, 0);
    }
    cvt(sc3(libc::SYS_readv, fd as usize, iov as usize, n as usize))
}

#[no_mangle]
pub unsafe extern "C" fn writev(fd: c_int, iov: *const libc::iovec, n: c_int) -> ssize_t {
    if is_ledger_socket(fd) {
        let mut m: msghdr = std::mem::zeroed();
        m.msg_iov = iov as *mut libc::iovec;
        m.msg_iovlen = n as _;
        return sendmsg(fd, &m, 0);
    }
    cvt(sc3(libc::SYS_writev, fd as usize, iov as usize, n as usize))
}

#[no_mangle]
pub unsafe extern "C" fn epoll_create1(flags: c_int) -> c_int {
    let r = sc3(libc::SYS_epoll_create1, flags as usize, 0, 0);
    if !active() || is_err(r) {
        return cvt(r) as c_int;
    }
    let fd = renumber(r as c_int);
    let obj = with_state(new_obj);
    record_fd(fd, Kind::Epoll, obj, 0, flags & libc::EPOLL_CLOEXEC != 0, "epoll_create1");
    fd
}

#[no_mangle]
pub unsafe extern "C" fn epoll_ctl(epfd: c_int, op: c_int, fd: c_int, ev: *mut libc::epoll_event) -> c_int {
    if active() && sched_on() {
        sched::point(Op::EpollCtl { epfd, fd });
    }
    let r = sc6(libc::SYS_epoll_ctl, epfd as usize, op as usize, fd as usize, ev as usize, 0, 0);
    if active() {
        trace_push("epoll_ctl", epfd, fd as i64, r as i64, vec![], op as u64);
        if sched_on() {
            sched::step_done(Op::EpollCtl { epfd, fd }, r as i64);
        }
    }
    cvt(r) as c_int
}

#[no_mangle]
pub unsafe extern "C" fn epoll_wait(epfd: c_int, events: *mut libc::epoll_event, max: c_int, timeout: c_int) -> c_int {
    if !active() {
        return cvt(sc6(libc::SYS_epoll_wait, epfd as usize, events as usize, max as usize, timeout as usize, 0, 0)) as c_int;
    }
    if sched_on() {
        let op = Op::EpollWait { epfd, timeout };
        let d = sched::point(op);
        let r = match d {
            Decision::Eintr => -(libc::EINTR as isize),
            Decision::TimerFired => {
                CLOCK_SKEW_NS.fetch_add(timeout.max(0) as u64 * 1_000_000, Ordering::SeqCst);
                0
            },
            _ => sc6(libc::SYS_epoll_wait, epfd as usize, events as usize, max as usize, 0, 0, 0),
        };
        trace_push("epoll_wait", epfd, max as i64, r as i64, vec![], 0);
        sched::step_done(op, r as i64);
        return cvt(r) as c_int;
    }
    let r = sc6(libc::SYS_epoll_wait, epfd as usize, events as usize, max as usize, timeout as usize, 0, 0);
    trace_push("epoll_wait", epfd, max as i64, r as i64, vec![], 0);
    cvt(r) as c_int
}

type ShmOpenFn = unsafe extern "C" fn(*const c_char, c_int, libc::mode_t) -> c_int;

#[no_mangle]
pub unsafe extern "C" fn shm_open(name: *const c_char, oflag: c_int, mode: libc::mode_t) -> c_int {
    static mut REAL: Option<ShmOpenFn> = None;
    #[allow(static_mut_refs)]
    if REAL.is_none() {
        let p = libc::dlsym(libc::RTLD_NEXT, b"shm_open\0".as_ptr() as *const c_char);
        REAL = Some(std::mem::transmute::<*mut c_void, ShmOpenFn>(p));
    }
    #[allow(static_mut_refs)]
    let r = (REAL.unwrap())(name, oflag, mode);
    if !active() || r < 0 {
        return r;
    }
    let e = *libc::__errno_location();
    let ce = has_cloexec(r);
    let fd = renumber(r);
    let ino = ino_of(fd);
    let obj = with_state(|s| {
        let o = new_obj(s);
        s.ino2obj.insert(ino, (o, 0));
        o
    });
    record_fd(fd, Kind::Shm, obj, 0, ce, "shm_open");
    raw::set_errno(e);
    fd
}

unsafe fn do_mmap(addr: *mut c_void, len: size_t, prot: c_int, flags: c_int, fd: c_int, off: libc::off_t) -> *mut c_void {
    #[cfg(vcheck_asan)]
    let r = {
        let p = __interceptor_mmap(addr, len, prot, flags, fd, off);
        if p == libc::MAP_FAILED {
            return p;
        }
        p as isize
    };
    #[cfg(not(vcheck_asan))]
    let r = sc6(libc::SYS_mmap, addr as usize, len, prot as usize, flags as usize, fd as usize, off as usize);
    if is_err(r) {
        raw::set_errno((-r) as i32);
        return libc::MAP_FAILED;
    }
    if active() && fd >= 0 && (flags & libc::MAP_SHARED) != 0 {
        if lookup(fd).is_none() {
            adopt_unknown(fd, "mmap");
        }
        with_state(|s| {
            s.maps.insert(r as usize, len);
        });
    }
    r as *mut c_void
}

#[no_mangle]
pub unsafe extern "C" fn mmap(addr: *mut c_void, len: size_t, prot: c_int, flags: c_int, fd: c_int, off: libc::off_t) -> *mut c_void {
    do_mmap(addr, len, prot, flags, fd, off)
}
#[no_mangle]
pub unsafe extern "C" fn mmap64(addr: *mut c_void, len: size_t, prot: c_int, flags: c_int, fd: c_int, off: libc::off_t) -> *mut c_void {
    do_mmap(addr, len, prot, flags, fd, off)
}

#[no_mangle]
pub unsafe extern "C" fn munmap(addr: *mut c_void, len: size_t) -> c_int {
    #[cfg(vcheck_asan)]
    let r = {
        let x = __interceptor_munmap(addr, len);
        if x < 0 { -(*libc::__errno_location() as isize) } else { 0 }
    };
    #[cfg(not(vcheck_asan))]
    let r = sc3(libc::SYS_munmap, addr as usize, len, 0);
    if active() {
        // only bookkeeping for mappings we saw being created as shared file mappings
        LOCK.lock();
        #[allow(static_mut_refs)]
        if let Some(s) = STATE.as_mut() {
            if let Some(l) = s.maps.get(&(addr as usize)).copied() {
                if l == len || is_err(r) {
                    if !is_err(r) {
                        s.maps.remove(&(addr as usize));
                    }
                } else {
                    // partial unmap of a tracked mapping: record as anomaly
                    s.maps.remove(&(addr as usize));
                }
            }
        }
        LOCK.unlock();
    }
    cvt(r) as c_int
}

// --- futex (std's Mutex/Condvar/Once/parker go through libc::syscall) -------------------------

#[no_mangle]
pub unsafe extern "C" fn syscall(num: c_long, a1: usize, a2: usize, a3: usize, a4: usize, a5: usize, a6: usize) -> c_long {
    if active() && num == libc::SYS_futex && sched_on() {
        let cmd = (a2 as c_int) & !(libc::FUTEX_PRIVATE_FLAG | libc::FUTEX_CLOCK_REALTIME);
        if cmd == libc::FUTEX_WAIT || cmd == libc::FUTEX_WAIT_BITSET {
            let addr = a1 as *const AtomicU32;
            let val = a3 as u32;
            let timed = a4 != 0;
            // relative (FUTEX_WAIT) or absolute (WAIT_BITSET) timeout: we only need to know how far
            // to advance the virtual clock when the timer alternative is taken
            let mut adv_ns: u64 = 0;
            if timed {
                let ts = &*(a4 as *const libc::timespec);
                let t = ts.tv_sec as u64 * 1_000_000_000 + ts.tv_nsec as u64;
                if cmd == libc::FUTEX_WAIT {
                    adv_ns = t;
                } else {
                    let clk = if (a2 as c_int) & libc::FUTEX_CLOCK_REALTIME != 0 { libc::CLOCK_REALTIME } else { libc::CLOCK_MONOTONIC };
                    let mut now = libc::timespec { tv_sec: 0, tv_nsec: 0 };
                    clock_gettime(clk, &mut now);
                    let n = now.tv_sec as u64 * 1_000_000_000 + now.tv_nsec as u64;
                    adv_ns = t.saturating_sub(n) + 1;
                }
            }
            let op = Op::FutexWait { addr: a1, val, timed };
            let d = sched::point(op);
            let r = match d {
                Decision::TimerFired => {
                    CLOCK_SKEW_NS.fetch_add(adv_ns, Ordering::SeqCst);
                    -(libc::ETIMEDOUT as isize)
                },
                _ => {
                    if (*addr).load(Ordering::SeqCst) != val { -(libc::EAGAIN as isize) } else { 0 }
                },
            };
            sched::step_done(op, r as i64);
            return cvt(r) as c_long;
        }
        if cmd == libc::FUTEX_WAKE || cmd == libc::FUTEX_WAKE_BITSET {
            // nobody ever sleeps in the kernel on a program futex under the scheduler
            return 0;
        }
    }
    cvt(sc6(num as i64, a1, a2, a3, a4, a5, a6)) as c_long
}

// --- threads ------------------------------------------------------------------------------------

type StartFn = extern "C" fn(*mut c_void) -> *mut c_void;
type PthreadCreateFn = unsafe extern "C" fn(*mut libc::pthread_t, *const libc::pthread_attr_t, StartFn, *mut c_void) -> c_int;
type PthreadJoinFn = unsafe extern "C" fn(libc::pthread_t, *mut *mut c_void) -> c_int;

struct Tramp {
    task: i32,
    start: StartFn,
    arg: *mut c_void,
}

extern "C" fn trampoline(p: *mut c_void) -> *mut c_void {
    let t = unsafe { Box::from_raw(p as *mut Tramp) };
    TASK.with(|c| c.set(t.task));
    unsafe {
        sched::thread_entry(t.task);
    }
    (t.start)(t.arg)
}

#[no_mangle]
pub unsafe extern "C" fn pthread_create(
    th: *mut libc::pthread_t,
    attr: *const libc::pthread_attr_t,
    start: StartFn,
    arg: *mut c_void,
) -> c_int {
    static mut REAL: Option<PthreadCreateFn> = None;
    #[allow(static_mut_refs)]
    if REAL.is_none() {
        let p = libc::dlsym(libc::RTLD_NEXT, b"pthread_create\0".as_ptr() as *const c_char);
        REAL = Some(std::mem::transmute::<*mut c_void, PthreadCreateFn>(p));
    }
    #[allow(static_mut_refs)]
    #[allow(unused_mut)]
    let mut real = REAL.unwrap();
    // in the AddressSanitizer build go through ASan's own interceptor so that its thread
    // registry stays consistent
    #[cfg(vcheck_asan)]
    {
        real = __interceptor_pthread_create;
    }
    if !(active() && sched_on()) {
        return real(th, attr, start, arg);
    }
    let task = sched::new_task();
    let tr = Box::into_raw(Box::new(Tramp { task, start, arg }));
    let r = real(th, attr, trampoline, tr as *mut c_void);
    if r != 0 {
        sched::task_failed(task);
        drop(Box::from_raw(tr));
    } else {
        sched::set_pthread(task, *th);
    }
    r
}

#[no_mangle]
pub unsafe extern "C" fn pthread_join(th: libc::pthread_t, ret: *mut *mut c_void) -> c_int {
    static mut REAL: Option<PthreadJoinFn> = None;
    #[allow(static_mut_refs)]
    if REAL.is_none() {
        let p = libc::dlsym(libc::RTLD_NEXT, b"pthread_join\0".as_ptr() as *const c_char);
        REAL = Some(std::mem::transmute::<*mut c_void, PthreadJoinFn>(p));
    }
    #[allow(static_mut_refs)]
    #[allow(unused_mut)]
    let mut real = REAL.unwrap();
    #[cfg(vcheck_asan)]
    {
        real = __interceptor_pthread_join;
    }
    if active() && sched_on() {
        if let Some(t) = sched::task_of_pthread(th) {
            let op = Op::Join { task: t };
            sched::point(op);
            sched::step_done(op, 0);
            let r = real(th, ret);
            sched::forget_pthread(t);
            return r;
        }
    }
    real(th, ret)
}

#[no_mangle]
pub unsafe extern "C" fn sched_yield() -> c_int {
    if active() && sched_on() {
        sched::point(Op::Yield);
        sched::step_done(Op::Yield, 0);
        return 0;
    }
    cvt(sc3(libc::SYS_sched_yield, 0, 0, 0)) as c_int
}

#[no_mangle]
pub unsafe extern "C" fn nanosleep(req: *const libc::timespec, rem: *mut libc::timespec) -> c_int {
    if active() && sched_on() {
        let t = (*req).tv_sec as u64 * 1_000_000_000 + (*req).tv_nsec as u64;
        CLOCK_SKEW_NS.fetch_add(t, Ordering::SeqCst);
        sched::point(Op::Yield);
        sched::step_done(Op::Yield, 0);
        return 0;
    }
    cvt(sc3(libc::SYS_nanosleep, req as usize, rem as usize, 0)) as c_int
}

#[no_mangle]
pub unsafe extern "C" fn clock_nanosleep(clk: libc::clockid_t, flags: c_int, req: *const libc::timespec, rem: *mut libc::timespec) -> c_int {
    if active() && sched_on() {
        let t = (*req).tv_sec as u64 * 1_000_000_000 + (*req).tv_nsec as u64;
        if flags & libc::TIMER_ABSTIME == 0 {
            CLOCK_SKEW_NS.fetch_add(t, Ordering::SeqCst);
        } else {
            let mut now = libc::timespec { tv_sec: 0, tv_nsec: 0 };
            clock_gettime(clk, &mut now);
            let n = now.tv_sec as u64 * 1_000_000_000 + now.tv_nsec as u64;
            CLOCK_SKEW_NS.fetch_add(t.saturating_sub(n), Ordering::SeqCst);
        }
        sched::point(Op::Yield);
        sched::step_done(Op::Yield, 0);
        return 0;
    }
    // clock_nanosleep returns the error number directly
    let r = sc6(libc::SYS_clock_nanosleep, clk as usize, flags as usize, req as usize, rem as usize, 0, 0);
    if is_err(r) { (-r) as c_int } else { 0 }
}

#[no_mangle]
pub unsafe extern "C" fn clock_gettime(clk: libc::clockid_t, ts: *mut libc::timespec) -> c_int {
    let r = raw::clock_gettime(clk, ts);
    if is_err(r) {
        return cvt(r) as c_int;
    }
    let skew = CLOCK_SKEW_NS.load(Ordering::Relaxed);
    if skew != 0 && (clk == libc::CLOCK_MONOTONIC || clk == libc::CLOCK_REALTIME || clk == libc::CLOCK_BOOTTIME) {
        let t = (*ts).tv_sec as u64 * 1_000_000_000 + (*ts).tv_nsec as u64 + skew;
        (*ts).tv_sec = (t / 1_000_000_000) as i64;
        (*ts).tv_nsec = (t % 1_000_000_000) as i64;
    }
    0
}

// ---------------------------------------------------------------------------
// snapshot API for the harness

#[derive(Clone, Debug, Default, Serialize, Deserialize)]
pub struct Snapshot {
    pub open_fds: Vec<(i32, String)>,
    pub anomalies: Vec<LedgerEvent>,
    pub maps: usize,
    pub ctrunc_seen: u32,
    pub max_sent_packet: usize,
    pub min_recv_buf: usize,
}

pub fn snapshot() -> Snapshot {
    with_state(|s| Snapshot {
        open_fds: s.fds.iter().map(|(k, v)| (*k, format!("{:?}/{}", v.kind, v.origin))).collect(),
        anomalies: s.anomalies.clone(),
        maps: s.maps.len(),
        ctrunc_seen: s.ctrunc_seen,
        max_sent_packet: s.max_sent_packet,
        min_recv_buf: s.min_recv_buf,
    })
}

pub fn take_trace() -> Vec<TraceEntry> {
    with_state(|s| std::mem::take(&mut s.trace))
}

pub fn poll_timeouts() -> Vec<i32> {
    with_state(|s| s.poll_timeouts.clone())
}

/// descriptors open in this process according to /proc/self/fd (excluding the directory fd itself)
pub fn proc_fds() -> Vec<(i32, String)> {
    let mut v = Vec::new();
    if let Ok(rd) = std::fs::read_dir("/proc/self/fd") {
        for e in rd.flatten() {
            if let Ok(n) = e.file_name().to_string_lossy().parse::<i32>() {
                let t = std::fs::read_link(e.path()).map(|p| p.to_string_lossy().to_string()).unwrap_or_default();
                v.push((n, t));
            }
        }
    }
    v.sort();
    // the read_dir descriptor itself shows up; it is the one whose link points to /proc/<pid>/fd
    v.retain(|(_, t)| !(t.starts_with("/proc/") && t.ends_with("/fd")));
    v
}

pub fn shared_maps() -> Vec<String> {
    let mut v = Vec::new();
    if let Ok(s) = std::fs::read_to_string("/proc/self/maps") {
        for l in s.lines() {
            if l.contains("ipc-channel-shared-memory") || l.contains("/memfd:") || l.contains("/dev/shm/") {
                v.push(l.to_string());
            }
        }
    }
    v
}
