//! E1 parent side: stateless exploration of all schedules with at most `bound`
//! deviations (preemptions, timer firings, injected EINTR) from the default schedule.
#![allow(dead_code)]

use crate::exec::{Exit, Outcome, Pool, Status};
use crate::interpose::Cfg;
use std::collections::{HashMap, HashSet};
use std::hash::{Hash, Hasher};

#[derive(Clone, Debug)]
pub struct ExploreCfg {
    pub base: Cfg,
    pub bound: u32,
    pub workers: usize,
    /// stop (and report exhaustive = false) after this many executions
    pub max_execs: u64,
    /// stop (and report exhaustive = false) after this much wall time
    pub max_wall_s: f64,
    pub exec_timeout_s: f64,
    /// re-run every n-th execution with its complete choice list and compare (0 = never)
    pub determinism_every: u64,
    /// stop after this many violating executions
    pub max_violations: usize,
}

impl ExploreCfg {
    pub fn new(base: Cfg, bound: u32) -> ExploreCfg {
        ExploreCfg {
            base,
            bound,
            workers: crate::exec::default_workers(),
            max_execs: u64::MAX,
            max_wall_s: f64::MAX,
            exec_timeout_s: 30.0,
            determinism_every: 97,
            max_violations: 3,
        }
    }
}

#[derive(Clone, Debug, Default)]
pub struct ExploreStats {
    pub execs: u64,
    pub transitions: u64,
    pub states: HashSet<u64>,
    pub by_cost: Vec<u64>,
    pub outcomes: HashMap<u64, (u64, Vec<String>)>,
    pub max_points: usize,
    pub capped: bool,
    pub mismatches: u64,
    pub determinism_checks: u64,
    pub machinery_errors: Vec<String>,
    pub violations: Vec<Violation>,
    pub with_switch: u64,
    pub timers: u64,
    pub wall_s: f64,
    pub bound: u32,
    /// one explored schedule with the maximum number of deviations: (choices, alternatives per point, observation)
    pub example: Option<(Vec<u8>, Vec<u8>, Vec<String>)>,
}

#[derive(Clone, Debug)]
pub struct Violation {
    pub choices: Vec<u8>,
    pub status: Status,
    pub obs: Vec<String>,
    pub panics: Vec<String>,
    pub trace: Vec<crate::interpose::TraceEntry>,
}

fn hash_strs(v: &[String], st: &Status) -> u64 {
    let mut h = std::collections::hash_map::DefaultHasher::new();
    v.hash(&mut h);
    std::mem::discriminant(st).hash(&mut h);
    h.finish()
}

enum Tag {
    Explore { prefix: Vec<u8>, cost: u32 },
    Recheck { choices: Vec<u8>, obs_hash: u64, npoints: usize },
}

/// `judge` maps an execution's outcome to Ok(()) or Err(description) — it sees deadlocks,
/// panics on other threads, etc. and decides whether they violate the property.
pub fn explore(
    cfg: &ExploreCfg,
    body: &dyn Fn() -> Result<(), String>,
    judge: &dyn Fn(&Outcome) -> Result<(), String>,
) -> ExploreStats {
    let t0 = std::time::Instant::now();
    let mut stats = ExploreStats { bound: cfg.bound, by_cost: vec![0; cfg.bound as usize + 1], ..Default::default() };
    let mut pool: Pool<Tag> = Pool::new(cfg.workers, cfg.exec_timeout_s);
    let mut stack: Vec<(Vec<u8>, u32)> = vec![(Vec::new(), 0)];
    let mut rechecks: Vec<Tag> = Vec::new();
    let mut stop = false;
    loop {
        while pool.has_capacity() && !stop {
            if let Some(t) = rechecks.pop() {
                if let Tag::Recheck { ref choices, .. } = t {
                    let mut c = cfg.base.clone();
                    c.prefix = choices.clone();
                    pool.submit(t, &c, body);
                }
                continue;
            }
            match stack.pop() {
                Some((prefix, cost)) => {
                    let mut c = cfg.base.clone();
                    c.prefix = prefix.clone();
                    pool.submit(Tag::Explore { prefix, cost }, &c, body);
                },
                None => break,
            }
        }
        let (tag, out) = match pool.wait_any() {
            Some(x) => x,
            None => break,
        };
        match tag {
            Tag::Recheck { choices, obs_hash, npoints } => {
                stats.determinism_checks += 1;
                let (h, n) = match &out.result {
                    Some(r) => (hash_strs(&r.obs, &r.status), r.points.len()),
                    None => (0, 0),
                };
                if h != obs_hash || n != npoints {
                    stats.machinery_errors.push(format!(
                        "nondeterministic replay of schedule {:?}: observation hash {:x} vs {:x}, points {} vs {}",
                        choices, obs_hash, h, npoints, n
                    ));
                    stop = true;
                }
            },
            Tag::Explore { prefix, cost } => {
                stats.execs += 1;
                stats.by_cost[cost as usize] += 1;
                match &out.result {
                    None => {
                        // child died without a report: crash of the process under test or watchdog
                        match out.exit {
                            Exit::TimedOut => {
                                stats.machinery_errors.push(format!("watchdog: schedule {:?} did not finish", prefix));
                                stop = true;
                            },
                            _ => {
                                if let Err(e) = judge(&out) {
                                    stats.violations.push(Violation {
                                        choices: prefix.clone(),
                                        status: Status::Panic(e),
                                        obs: vec![],
                                        panics: vec![],
                                        trace: vec![],
                                    });
                                }
                            },
                        }
                    },
                    Some(r) => {
                        stats.transitions += r.fps.len() as u64;
                        for f in &r.fps {
                            stats.states.insert(*f);
                        }
                        stats.max_points = stats.max_points.max(r.points.len());
                        stats.mismatches += r.mismatches as u64;
                        stats.timers += r.timers as u64;
                        if r.switches > 0 {
                            stats.with_switch += 1;
                        }
                        let oh = hash_strs(&r.obs, &r.status);
                        let e = stats.outcomes.entry(oh).or_insert_with(|| (0, r.obs.clone()));
                        e.0 += 1;
                        let choices: Vec<u8> = r.points.iter().map(|p| p.choice).collect();
                        if cost == cfg.bound && matches!(r.status, Status::Ok) && stats.example.as_ref().map(|e| e.0.len() < choices.len()).unwrap_or(true) {
                            stats.example = Some((choices.clone(), r.points.iter().map(|p| p.n).collect(), r.obs.clone()));
                        }
                        if let Status::Machinery(m) = &r.status {
                            stats.machinery_errors.push(format!("{} (schedule {:?})", m, choices));
                            stop = true;
                        } else if let Err(e) = judge(&out) {
                            stats.violations.push(Violation {
                                choices: choices.clone(),
                                status: match &r.status {
                                    Status::Ok => Status::Violation(e),
                                    s => s.clone(),
                                },
                                obs: r.obs.clone(),
                                panics: r.panics.clone(),
                                trace: r.trace.clone(),
                            });
                            if stats.violations.len() >= cfg.max_violations {
                                stop = true;
                            }
                        }
                        // expand
                        if !stop {
                            for i in prefix.len()..r.points.len() {
                                let p = &r.points[i];
                                for alt in 1..p.n {
                                    let c = cost + ((p.cost_mask >> alt) & 1);
                                    if c <= cfg.bound {
                                        let mut np = choices[..i].to_vec();
                                        np.push(alt);
                                        stack.push((np, c));
                                    }
                                }
                            }
                        }
                        if cfg.determinism_every > 0 && stats.execs % cfg.determinism_every == 1 {
                            rechecks.push(Tag::Recheck { choices, obs_hash: oh, npoints: r.points.len() });
                        }
                    },
                }
                if stats.execs >= cfg.max_execs || t0.elapsed().as_secs_f64() > cfg.max_wall_s {
                    if !stack.is_empty() {
                        stats.capped = true;
                    }
                    stop = true;
                }
            },
        }
        if stop && pool.in_flight() == 0 {
            break;
        }
        if stack.is_empty() && rechecks.is_empty() && pool.in_flight() == 0 {
            break;
        }
    }
    if stop && !stack.is_empty() {
        stats.capped = true;
    }
    stats.wall_s = t0.elapsed().as_secs_f64();
    stats
}
