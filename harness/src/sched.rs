//! E1: the controlled scheduler running inside one execution (child process).
//!
//! Real OS threads, real kernel, but exactly one registered task runs at any time;
//! control changes hands only at visible operations (`point`). The decision at each
//! point comes from the schedule prefix handed down by the explorer, then defaults
//! (choice 0 = keep running / lowest enabled task).
#![allow(static_mut_refs, dead_code)]

use crate::interpose::{self, Cfg, Kind};
use crate::raw;
use serde::{Deserialize, Serialize};
use std::sync::atomic::{AtomicU32, Ordering};

pub const MAX_TASKS: usize = 24;

#[derive(Clone, Copy, Debug, PartialEq, Eq)]
pub enum Op {
    None,
    Start,
    Send { fd: i32, nonblock: bool },
    Recv { fd: i32, nonblock: bool },
    Close { fd: i32 },
    EpollCtl { epfd: i32, fd: i32 },
    EpollWait { epfd: i32, timeout: i32 },
    Poll { fd: i32, events: i16, timeout: i32 },
    /// poll(2) on several descriptors (array of `n` pollfd at `ptr` in the caller's memory)
    PollN { ptr: usize, n: usize, timeout: i32 },
    FutexWait { addr: usize, val: u32, timed: bool },
    Join { task: i32 },
    Yield,
    /// harness: wait until no other task can run (quiescence)
    Settle,
    Other { fd: i32, what: u32 },
    /// the return of a transmission (a pure preemption opportunity)
    After,
}

#[derive(Clone, Copy, Debug, PartialEq, Eq)]
pub enum Decision {
    Proceed,
    TimerFired,
    Eintr,
}

#[derive(Clone, Copy, Debug, PartialEq, Eq)]
enum Alt {
    Run(usize),
    Timer(usize),
    Eintr(usize),
}

#[derive(Clone, Debug, Default, Serialize, Deserialize)]
pub struct Point {
    /// number of alternatives
    pub n: u8,
    pub choice: u8,
    /// bit i set: alternative i costs one deviation
    pub cost_mask: u32,
    /// alternative descriptors: kind<<5 | task   (kind 0 = run, 1 = timer, 2 = EINTR)
    pub alts: Vec<u8>,
}

struct Task {
    used: bool,
    finished: bool,
    go: AtomicU32,
    pending: Op,
    reason: Decision,
    pthread: libc::pthread_t,
    hash: u64,
    canon: u64,
    steps: u64,
    /// the task may run again only once other tasks have executed more than this many steps
    wait_others: Option<u64>,
    spawned: u32,
}

impl Task {
    const fn new() -> Task {
        Task {
            used: false,
            finished: false,
            go: AtomicU32::new(0),
            pending: Op::None,
            reason: Decision::Proceed,
            pthread: 0,
            hash: 0,
            canon: 0,
            steps: 0,
            wait_others: None,
            spawned: 0,
        }
    }
}

pub struct SchedState {
    tasks: [Task; MAX_TASKS],
    ntasks: usize,
    current: usize,
    total_steps: u64,
    prefix: Vec<u8>,
    pub points: Vec<Point>,
    pub fps: Vec<u64>,
    obj_hash: std::collections::BTreeMap<u64, u64>,
    horizon: usize,
    eintr_left: u32,
    pub mismatches: u32,
    pub timers_fired: u32,
    pub context_switches: u32,
    key: libc::pthread_key_t,
    main_done: bool,
    lonely_yields: u32,
    directive: Vec<u8>,
    dir_pos: usize,
    strict: bool,
    yield_alts: bool,
    /// task that kept the processor at its last yield (a run of such yields is one deviation)
    yield_streak: Option<usize>,
    yield_streak_len: u32,
    /// futex words in order of first appearance in this execution (addresses are not stable
    /// identities: the heap layout inherited from the exploring parent varies)
    futex_ids: Vec<usize>,
}

static mut S: Option<SchedState> = None;

fn st() -> &'static mut SchedState {
    unsafe { S.as_mut().expect("scheduler not initialised") }
}

pub fn init(cfg: &Cfg) {
    const T: Task = Task::new();
    let mut s = SchedState {
        tasks: [T; MAX_TASKS],
        ntasks: 1,
        current: 0,
        total_steps: 0,
        prefix: cfg.prefix.clone(),
        points: Vec::with_capacity(256),
        fps: Vec::with_capacity(256),
        obj_hash: Default::default(),
        horizon: if cfg.horizon == 0 { 20000 } else { cfg.horizon },
        eintr_left: cfg.eintr_budget,
        mismatches: 0,
        timers_fired: 0,
        context_switches: 0,
        key: 0,
        main_done: false,
        lonely_yields: 0,
        directive: cfg.directive.clone(),
        dir_pos: 0,
        strict: cfg.strict_deviations,
        yield_alts: cfg.yield_alts,
        yield_streak: None,
        yield_streak_len: 0,
        futex_ids: Vec::new(),
    };
    s.tasks[0].used = true;
    s.tasks[0].canon = 1;
    unsafe {
        let mut k: libc::pthread_key_t = 0;
        libc::pthread_key_create(&mut k, Some(key_dtor));
        s.key = k;
        S = Some(s);
    }
    interpose::TASK.with(|t| t.set(0));
}

unsafe extern "C" fn key_dtor(v: *mut libc::c_void) {
    let task = (v as usize) - 1;
    finish_task(task);
}

fn mix(a: u64, b: u64) -> u64 {
    // splitmix-style
    let mut x = a ^ b.wrapping_add(0x9e3779b97f4a7c15).wrapping_add(a << 6).wrapping_add(a >> 2);
    x ^= x >> 30;
    x = x.wrapping_mul(0xbf58476d1ce4e5b9);
    x ^= x >> 27;
    x = x.wrapping_mul(0x94d049bb133111eb);
    x ^= x >> 31;
    x
}

// --- task management ----------------------------------------------------------------------------

pub fn new_task() -> i32 {
    let s = st();
    let me = s.current;
    let id = s.ntasks;
    if id >= MAX_TASKS {
        fatal("too many tasks");
    }
    s.ntasks += 1;
    s.tasks[me].spawned += 1;
    let canon = mix(s.tasks[me].canon, s.tasks[me].spawned as u64);
    let t = &mut s.tasks[id];
    t.used = true;
    t.pending = Op::Start;
    t.canon = canon;
    t.hash = canon;
    id as i32
}

pub fn task_failed(task: i32) {
    let s = st();
    s.tasks[task as usize].finished = true;
}

pub fn set_pthread(task: i32, th: libc::pthread_t) {
    st().tasks[task as usize].pthread = th;
}

pub fn task_of_pthread(th: libc::pthread_t) -> Option<i32> {
    // pthread_t values are reused once a thread has been joined: take the latest task with it
    let s = st();
    (0..s.ntasks).rev().find(|&i| s.tasks[i].used && s.tasks[i].pthread == th).map(|i| i as i32)
}

/// the thread has been joined: its pthread_t may be handed out again
pub fn forget_pthread(task: i32) {
    st().tasks[task as usize].pthread = 0;
}

/// first thing a new thread does: wait until it is scheduled
pub unsafe fn thread_entry(task: i32) {
    let s = st();
    libc::pthread_setspecific(s.key, (task as usize + 1) as *const libc::c_void);
    wait_turn(task as usize);
    step_done(Op::Start, 0);
}

fn wait_turn(me: usize) {
    let t = &st().tasks[me];
    unsafe {
        while t.go.load(Ordering::Acquire) == 0 {
            raw::futex_wait(t.go.as_ptr(), 0);
        }
    }
    t.go.store(0, Ordering::Release);
}

fn wake(task: usize) {
    let t = &st().tasks[task];
    t.go.store(1, Ordering::Release);
    unsafe { raw::futex_wake(t.go.as_ptr(), 1) };
}

fn finish_task(me: usize) {
    let s = st();
    if !interpose::ACTIVE.load(Ordering::Relaxed) || s.main_done {
        return;
    }
    interpose::TASK.with(|t| t.set(-1));
    s.tasks[me].finished = true;
    s.tasks[me].pending = Op::None;
    // hand the baton on
    match decide(me) {
        Some((next, reason)) => {
            s.tasks[next].reason = reason;
            s.current = next;
            s.context_switches += 1;
            wake(next);
        },
        None => {
            // nothing enabled at all
            deadlock();
        },
    }
}

/// called by the harness when the body of task 0 has returned
pub fn main_done() {
    if let Some(s) = unsafe { S.as_mut() } {
        s.main_done = true;
    }
}

// --- enabledness --------------------------------------------------------------------------------

fn others_steps(s: &SchedState, t: usize) -> u64 {
    s.total_steps - s.tasks[t].steps
}

unsafe fn sock_send_enabled(fd: i32) -> bool {
    let mut outq: libc::c_int = 0;
    let r = raw::ioctl(fd, libc::TIOCOUTQ as usize, &mut outq as *mut _ as usize);
    if r < 0 {
        return true; // will fail at once
    }
    match raw::getsockopt_int(fd, libc::SOL_SOCKET, libc::SO_SNDBUF) {
        Ok(sndbuf) => {
            if outq < sndbuf {
                return true;
            }
        },
        Err(_) => return true,
    }
    let re = raw::poll1(fd, libc::POLLOUT);
    re & (libc::POLLHUP | libc::POLLERR | libc::POLLNVAL | libc::POLLOUT) != 0
}

fn op_enabled(s: &SchedState, t: usize) -> bool {
    let task = &s.tasks[t];
    if !task.used || task.finished {
        return false;
    }
    if let Some(w) = task.wait_others {
        if others_steps(s, t) <= w {
            return false;
        }
    }
    unsafe {
        match task.pending {
            Op::None => false,
            Op::Start | Op::Close { .. } | Op::EpollCtl { .. } | Op::Other { .. } | Op::After => true,
            Op::Send { fd, nonblock } => nonblock || sock_send_enabled(fd),
            Op::Recv { fd, nonblock } => {
                nonblock || raw::poll1(fd, libc::POLLIN | libc::POLLRDHUP) != 0
            },
            Op::EpollWait { epfd, timeout } => timeout == 0 || raw::poll1(epfd, libc::POLLIN) != 0,
            Op::Poll { fd, events, timeout } => timeout == 0 || raw::poll1(fd, events) != 0,
            Op::PollN { ptr, n, timeout } => {
                if timeout == 0 {
                    true
                } else {
                    // evaluate on a copy so that the caller's revents are untouched
                    let src = std::slice::from_raw_parts(ptr as *const libc::pollfd, n);
                    let mut copy: Vec<libc::pollfd> = src.to_vec();
                    raw::poll(copy.as_mut_ptr(), n, 0) > 0
                }
            },
            Op::FutexWait { addr, val, .. } => (*(addr as *const AtomicU32)).load(Ordering::SeqCst) != val,
            Op::Join { task } => s.tasks[task as usize].finished,
            Op::Yield => true, // gated by wait_others
            Op::Settle => false, // decided in decide()
        }
    }
}

fn has_timer(op: Op) -> bool {
    match op {
        Op::Poll { timeout, .. } => timeout > 0,
        Op::PollN { timeout, .. } => timeout > 0,
        Op::EpollWait { timeout, .. } => timeout > 0,
        Op::FutexWait { timed, .. } => timed,
        _ => false,
    }
}

/// Compute the alternatives in canonical order, consult the schedule, record the point.
/// Returns (task to run, its wake reason), or None if nothing is enabled.
fn decide(me: usize) -> Option<(usize, Decision)> {
    let s = st();
    let mut alts: Vec<Alt> = Vec::with_capacity(8);
    let me_enabled = op_enabled(s, me);
    if me_enabled {
        alts.push(Alt::Run(me));
    }
    for t in 0..s.ntasks {
        if t != me && op_enabled(s, t) {
            alts.push(Alt::Run(t));
        }
    }
    let nrun = alts.len();
    if nrun == 0 {
        // nobody else can run: a task that merely yielded (polling loop, spin-then-park back-off)
        // continues -- a yield with no other runnable task returns at once. Bounded, so that a pure
        // spin loop on a condition nobody can establish is reported as a deadlock (livelock).
        if s.lonely_yields < 300 {
            let mut order: Vec<usize> = vec![me];
            order.extend((0..s.ntasks).filter(|&t| t != me));
            for t in order {
                let k = &s.tasks[t];
                if k.used && !k.finished && k.pending == Op::Yield && !alts.contains(&Alt::Run(t)) {
                    alts.push(Alt::Run(t));
                }
            }
            if !alts.is_empty() {
                s.lonely_yields += 1;
            }
        }
    } else {
        s.lonely_yields = 0;
    }
    if alts.is_empty() {
        // quiescence: a settling task may continue
        let mut order: Vec<usize> = vec![me];
        order.extend((0..s.ntasks).filter(|&t| t != me));
        for t in order {
            let k = &s.tasks[t];
            if k.used && !k.finished && k.pending == Op::Settle {
                alts.push(Alt::Run(t));
            }
        }
    }
    let nrun2 = alts.len();
    // a yielding task may also keep the processor (costs a deviation)
    let mut yield_self: Option<usize> = None;
    if s.yield_alts && !me_enabled && nrun > 0 && s.tasks[me].used && !s.tasks[me].finished && s.tasks[me].pending == Op::Yield {
        yield_self = Some(alts.len());
        alts.push(Alt::Run(me));
    }
    // environment alternatives
    let mut order: Vec<usize> = Vec::new();
    if s.tasks[me].used && !s.tasks[me].finished {
        order.push(me);
    }
    order.extend((0..s.ntasks).filter(|&t| t != me && s.tasks[t].used && !s.tasks[t].finished));
    for &t in &order {
        if has_timer(s.tasks[t].pending) && !alts.contains(&Alt::Run(t)) {
            alts.push(Alt::Timer(t));
        }
    }
    if s.eintr_left > 0 {
        for &t in &order {
            if let Op::EpollWait { .. } = s.tasks[t].pending {
                alts.push(Alt::Eintr(t));
            }
        }
    }
    if alts.is_empty() {
        return None;
    }
    if alts.len() > 30 {
        alts.truncate(30);
    }
    let idx = s.points.len();
    if idx >= s.horizon {
        fatal("horizon exceeded (runaway execution)");
    }
    let mut choice = if idx < s.prefix.len() { s.prefix[idx] as usize } else { 0 };
    if s.dir_pos < s.directive.len() && idx >= s.prefix.len() {
        // directed mode: the task that must make the next transmission / reception runs alone
        let d = s.directive[s.dir_pos] as usize;
        if d < s.ntasks && s.tasks[d].used && !s.tasks[d].finished {
            match alts.iter().position(|a| *a == Alt::Run(d)) {
                Some(i) => choice = i,
                // waiting for something that is not a packet operation (a lock, a lazy being
                // initialised by another task, thread start): let the others run
                None if !matches!(s.tasks[d].pending, Op::Send { .. } | Op::Recv { .. }) => {},
                None => fatal(&format!(
                    "directed replay diverged at step {} of the directive: task {} cannot move ({:?}) although the model says its packet operation is enabled",
                    s.dir_pos, d, s.tasks[d].pending
                )),
            }
        }
    }
    if choice >= alts.len() {
        fatal(&format!(
            "replay divergence at point {}: choice {} but only {} alternatives",
            idx,
            choice,
            alts.len()
        ));
    }
    let mut cost_mask = 0u32;
    for (i, a) in alts.iter().enumerate() {
        let cost = match a {
            Alt::Run(t) => i > 0 && ((me_enabled && *t != me) || s.strict || yield_self == Some(i)),
            Alt::Timer(_) | Alt::Eintr(_) => (nrun2 > 0 || s.strict) && i > 0,
        };
        if cost {
            cost_mask |= 1 << i;
        }
    }
    let _ = nrun;
    s.points.push(Point {
        n: alts.len() as u8,
        choice: choice as u8,
        cost_mask,
        alts: alts
            .iter()
            .map(|a| match a {
                Alt::Run(t) => *t as u8,
                Alt::Timer(t) => (1 << 5) | *t as u8,
                Alt::Eintr(t) => (2 << 5) | *t as u8,
            })
            .collect(),
    });
    Some(match alts[choice] {
        Alt::Run(t) => (t, Decision::Proceed),
        Alt::Timer(t) => {
            s.timers_fired += 1;
            (t, Decision::TimerFired)
        },
        Alt::Eintr(t) => {
            s.eintr_left -= 1;
            (t, Decision::Eintr)
        },
    })
}

/// A visible operation of the calling task is about to happen.
pub fn point(op: Op) -> Decision {
    let me = interpose::cur_task();
    if me < 0 {
        return Decision::Proceed;
    }
    let me = me as usize;
    let s = st();
    if s.main_done {
        // the execution is over; park forever (process is about to exit)
        loop {
            unsafe { raw::futex_wait(s.tasks[me].go.as_ptr(), 0) };
        }
    }
    debug_assert_eq!(s.current, me, "task running without the baton");
    if op == Op::Yield && s.yield_streak == Some(me) && s.yield_streak_len < 8 {
        s.yield_streak_len += 1;
        return Decision::Proceed;
    }
    s.tasks[me].pending = op;
    if op == Op::Yield {
        s.tasks[me].wait_others = Some(others_steps(s, me));
    }
    match decide(me) {
        None => deadlock(),
        Some((next, reason)) => {
            // keeping the processor at a yield (one deviation) means: this task does not hand over
            // at its next yields either (at most 8: spin-then-park back-offs yield a handful of
            // times), i.e. it runs until it really blocks
            if op == Op::Yield && next == me && s.yield_alts {
                s.yield_streak = Some(me);
                s.yield_streak_len = 1;
            } else {
                s.yield_streak = None;
                s.yield_streak_len = 0;
            }
            if next == me {
                s.tasks[me].wait_others = None;
                return reason;
            }
            s.tasks[next].reason = reason;
            s.current = next;
            s.context_switches += 1;
            wake(next);
            wait_turn(me);
            let s = st();
            s.tasks[me].wait_others = None;
            s.tasks[me].reason
        },
    }
}

/// The operation judged enabled nevertheless returned EAGAIN: treat the task as blocked until
/// some other task has made a step (counted; expected to stay 0).
pub fn mismatch(_op: Op) {
    let me = interpose::cur_task() as usize;
    let s = st();
    s.mismatches += 1;
    s.tasks[me].wait_others = Some(others_steps(s, me));
}

fn objs_of(op: Op) -> (u64, [u64; 2]) {
    // (op code, objects touched)
    match op {
        Op::None => (0, [0, 0]),
        Op::Start => (1, [0, 0]),
        Op::Send { fd, .. } => (2, [interpose::obj_of(fd).0, 0]),
        Op::Recv { fd, .. } => (3, [interpose::obj_of(fd).0, 0]),
        Op::Close { fd } => (4, [interpose::obj_of(fd).0, 0]),
        Op::EpollCtl { epfd, fd } => (5, [interpose::obj_of(epfd).0, interpose::obj_of(fd).0]),
        Op::EpollWait { epfd, .. } => (6, [interpose::obj_of(epfd).0, 0]),
        Op::Poll { fd, .. } => (7, [interpose::obj_of(fd).0, 0]),
        Op::PollN { .. } => (7, [0, 0]),
        Op::FutexWait { addr, .. } => {
            let s = st();
            let id = match s.futex_ids.iter().position(|a| *a == addr) {
                Some(i) => i,
                None => {
                    s.futex_ids.push(addr);
                    s.futex_ids.len() - 1
                },
            };
            (8, [id as u64 | (1 << 63), 0])
        },
        Op::Join { task } => (9, [(task as u64) | (1 << 62), 0]),
        Op::Yield => (10, [0, 0]),
        Op::Settle => (11, [0, 0]),
        Op::Other { fd, what } => (12 + what as u64, [interpose::obj_of(fd).0, 0]),
        Op::After => (99, [0, 0]),
    }
}

/// The operation has been performed with result `res`: one transition.
pub fn step_done(op: Op, res: i64) {
    let me = interpose::cur_task();
    if me < 0 {
        return;
    }
    let me = me as usize;
    // object identity must be looked up before close removes it: close() calls us after the
    // ledger update, so resolve through what is left (falls back to the raw fd tag)
    let (code, objs) = objs_of(op);
    let s = st();
    if s.dir_pos < s.directive.len() && s.directive[s.dir_pos] as usize == me && res > 0 {
        if matches!(op, Op::Send { .. } | Op::Recv { .. }) {
            s.dir_pos += 1;
        }
    }
    s.total_steps += 1;
    s.tasks[me].steps += 1;
    let mut h = mix(s.tasks[me].hash, code);
    h = mix(h, res as u64);
    for o in objs {
        if o != 0 {
            let oh = *s.obj_hash.get(&o).unwrap_or(&o);
            h = mix(h, oh);
        }
    }
    s.tasks[me].hash = h;
    for o in objs {
        if o != 0 {
            let oh = *s.obj_hash.get(&o).unwrap_or(&o);
            s.obj_hash.insert(o, mix(oh, h));
        }
    }
    // state fingerprint: order-independent combination of all task and object histories
    let mut fp: u64 = 0;
    for t in 0..s.ntasks {
        if s.tasks[t].used {
            fp = fp.wrapping_add(mix(s.tasks[t].canon, s.tasks[t].hash));
        }
    }
    for (o, oh) in s.obj_hash.iter() {
        fp = fp.wrapping_add(mix(*o, *oh));
    }
    s.fps.push(fp);
}

/// harness API: block until no other task can make progress
pub fn settle() {
    if interpose::cur_task() < 0 || unsafe { S.is_none() } {
        return;
    }
    point(Op::Settle);
    step_done(Op::Settle, 0);
}

/// harness API: polling-loop yield
pub fn vyield() {
    if interpose::cur_task() < 0 || unsafe { S.is_none() } {
        std::thread::yield_now();
        return;
    }
    point(Op::Yield);
    step_done(Op::Yield, 0);
}

pub fn describe_tasks() -> String {
    let s = st();
    let mut out = String::new();
    for t in 0..s.ntasks {
        let k = &s.tasks[t];
        let od = match k.pending {
            Op::Send { fd, .. } | Op::Recv { fd, .. } | Op::Close { fd } | Op::Poll { fd, .. } => {
                let (o, e, kind) = interpose::obj_of(fd);
                format!(" [obj {:x}.{} {:?}]", o, e, kind)
            },
            _ => String::new(),
        };
        out.push_str(&format!(
            "task{}:{}{:?}{}; ",
            t,
            if k.finished { "finished " } else { "" },
            k.pending,
            od
        ));
    }
    out
}

fn deadlock() -> ! {
    let d = describe_tasks();
    crate::exec::finish(crate::exec::Status::Deadlock(d))
}

pub fn fatal(msg: &str) -> ! {
    crate::exec::finish(crate::exec::Status::Machinery(msg.to_string()))
}

pub fn report() -> Option<(Vec<Point>, Vec<u64>, u32, u32, u32)> {
    unsafe {
        S.as_mut().map(|s| {
            (
                std::mem::take(&mut s.points),
                std::mem::take(&mut s.fps),
                s.mismatches,
                s.timers_fired,
                s.context_switches,
            )
        })
    }
}

#[allow(unused)]
fn _k(_: Kind) {}
