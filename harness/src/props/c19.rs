//! C19 — all transports give the same answers to the same single-process program.
//! Explicit-state BFS over the reference model (ideal unbounded FIFO channels); every
//! transition (shortest program reaching its source state + the operation) is executed from
//! scratch on the os, memfd and in-process builds and every observable result is compared with
//! the model's -- so the three builds agree with the model and hence with each other.
use super::{emit_part, run_variant_part, sweep_batched, Part};
use crate::common::{Report, Tier};
use crate::interpose::Cfg;
use crate::model::{run_path_from, Op, World};
use serde_json::{json, Value};
use std::collections::{HashMap, VecDeque};

pub struct Graph {
    pub paths: Vec<Vec<Op>>,
    pub states: usize,
    pub depth: usize,
    pub closed: bool,
}

pub fn initial(max_chans: usize) -> World {
    let mut w = World::new(1);
    w.max_chans = max_chans;
    w
}

pub fn bfs(max_chans: usize, max_depth: usize, max_states: usize) -> Graph {
    let w0 = initial(max_chans);
    let mut seen: HashMap<String, ()> = HashMap::new();
    seen.insert(w0.canon(), ());
    let mut fr: VecDeque<(World, Vec<Op>)> = VecDeque::new();
    fr.push_back((w0, vec![]));
    let mut paths = Vec::new();
    let mut depth = 0;
    let mut closed = true;
    while let Some((w, path)) = fr.pop_front() {
        depth = depth.max(path.len());
        let ops = w.ops19(2, 4);
        if path.len() >= max_depth {
            if !ops.is_empty() {
                closed = false;
            }
            continue;
        }
        for op in ops {
            let mut w2 = w.clone();
            w2.apply(&op);
            let mut p2 = path.clone();
            p2.push(op);
            paths.push(p2.clone());
            let k = w2.canon();
            if !seen.contains_key(&k) {
                if seen.len() >= max_states {
                    closed = false;
                    continue;
                }
                seen.insert(k, ());
                fr.push_back((w2, p2));
            }
        }
    }
    Graph { paths, states: seen.len(), depth, closed }
}

/// Long-queue programs the breadth-first graph cannot reach within its depth: q messages queued
/// on one channel (the statement's bound is 64 per channel), consumed through each receive
/// variant or through the set (added before or after the sends), with the sender kept or dropped
/// first, alone or next to a second member with one message; the consumer runs one step past the
/// end of the queue.
pub fn deep_programs(tier: Tier) -> Vec<Vec<Op>> {
    use crate::model::How;
    let qs: Vec<usize> = if tier.is_quick() { vec![31, 32, 33, 63, 64] } else { (3..=64).collect() };
    let mut v = Vec::new();
    for &q in &qs {
        for drop_first in [false, true] {
            for how in [How::Blocking, How::Try, How::Timed0] {
                let mut p: Vec<Op> = (0..q).map(|_| Op::SendData(0)).collect();
                if drop_first {
                    p.push(Op::DropH(0));
                }
                p.extend((0..q).map(|_| Op::Recv { chan: 0, how }));
                if drop_first || how != How::Blocking {
                    p.push(Op::Recv { chan: 0, how });
                }
                v.push(p);
            }
            for add_first in [false, true] {
                for second in [false, true] {
                    let mut p: Vec<Op> = Vec::new();
                    if second {
                        p.push(Op::NewChannel);
                    }
                    if add_first {
                        p.push(Op::SetAdd(0));
                    }
                    p.extend((0..q).map(|_| Op::SendData(0)));
                    if second {
                        p.push(Op::SendData(1));
                        p.push(Op::SetAdd(1));
                    }
                    if drop_first {
                        p.push(Op::DropH(0));
                    }
                    if !add_first {
                        p.push(Op::SetAdd(0));
                    }
                    p.push(Op::SetDrain);
                    // something more arrives afterwards and is reported too
                    if !drop_first {
                        p.push(Op::SendData(0));
                        p.push(Op::SetDrain);
                    }
                    v.push(p);
                }
            }
        }
    }
    v
}

fn params(tier: Tier) -> (usize, usize, usize) {
    if tier.is_quick() {
        (2, 6, 100000)
    } else {
        (3, 7, 120000)
    }
}

/// Programs that only queue: n messages of `size` bytes are sent before anything is received,
/// then all are received and compared. The ideal unbounded channel accepts every send at once.
#[derive(Clone, Debug, serde::Serialize, serde::Deserialize)]
pub struct Capacity {
    pub n: usize,
    pub size: usize,
    /// a small message sent after the n big ones (still nothing received)
    pub then_small: bool,
}

pub fn capacity_programs() -> Vec<Capacity> {
    let mut v = Vec::new();
    for (n, size) in [(64usize, 100usize), (64, 1000), (64, 1600), (64, 2000), (48, 2000), (26, 4096), (11, 16384), (4, 65536), (1, 212_000), (1, 300_000)] {
        v.push(Capacity { n, size, then_small: false });
    }
    v.push(Capacity { n: 1, size: 213_000, then_small: true });
    v.push(Capacity { n: 1, size: 430_000, then_small: false });
    v
}

fn capacity_body(c: &Capacity) -> Result<(), String> {
    use ipc_channel::ipc;
    let (tx, rx) = ipc::channel::<Vec<u8>>().map_err(|e| e.to_string())?;
    for i in 0..c.n {
        crate::exec::obs(format!("sending #{}", i));
        tx.send(crate::common::pattern(c.size, i as u64)).map_err(|e| format!("send #{} failed: {}", i, e))?;
    }
    if c.then_small {
        crate::exec::obs("sending the small one".to_string());
        tx.send(vec![9u8; 10]).map_err(|e| format!("small send failed: {}", e))?;
    }
    crate::exec::obs("all sent".to_string());
    for i in 0..c.n {
        let d = rx.recv().map_err(|e| format!("recv #{}: {:?}", i, e))?;
        if d != crate::common::pattern(c.size, i as u64) {
            return Err(format!("message #{} of {} bytes arrived altered", i, c.size));
        }
    }
    if c.then_small && rx.recv().map_err(|e| format!("{:?}", e))? != vec![9u8; 10] {
        return Err("the small message arrived altered".into());
    }
    Ok(())
}

fn part(tier: Tier) -> (Part, Graph) {
    let mut p = Part::new();
    let (mc, depth, maxs) = params(tier);
    let g = bfs(mc, depth, maxs);
    let cfg = Cfg { sched: true, ..Default::default() };
    let mut n = 0u64;
    let mut fails = Vec::new();
    sweep_batched(&g.paths, 16, 120.0, &cfg, &|path: &Vec<Op>| run_path_from(initial(mc), path, false), &mut |_, path, r| {
        n += 1;
        if let Err(e) = r {
            fails.push((path.clone(), e));
        }
    });
    let deep = deep_programs(tier);
    let mut nd = 0u64;
    sweep_batched(&deep, 4, 120.0, &cfg, &|path: &Vec<Op>| run_path_from(initial(2), path, false), &mut |_, path, r| {
        nd += 1;
        if let Err(e) = r {
            fails.push((path.clone(), e));
        }
    });
    n += nd;
    // queue-only programs with larger messages (real socket buffers, one case per child)
    let caps = capacity_programs();
    let mut ncap = 0u64;
    let mut cap_fails: Vec<(Capacity, String)> = Vec::new();
    super::sweep(&caps, 60.0, &|_| Cfg { sched: true, ..Default::default() }, &capacity_body, &mut |_, c, out| {
        ncap += 1;
        match super::describe(out) {
            Ok(_) => {},
            Err(e) if e.starts_with("MACHINERY") => p.machinery.push(e),
            Err(e) => {
                // the one failure mode that is a recorded finding: the program's own send never returns
                // although nothing but buffer space stands in its way
                let sent_all = out.result.as_ref().map(|r| r.obs.iter().any(|o| o == "all sent")).unwrap_or(false);
                let sig = if e.contains("deadlock") && e.contains("Send") && !sent_all {
                    format!("[os-send-blocks-when-the-socket-buffer-is-full] a single-threaded program queues {} message(s) of {} bytes{} without receiving: a send never returns ({})", c.n, c.size, if c.then_small { " and a small one" } else { "" }, e)
                } else {
                    e
                };
                cap_fails.push((c.clone(), sig));
            },
        }
    });
    n += ncap;
    for (c, e) in cap_fails {
        p.fail(format!("{} :: capacity program {:?}", e, c), json!({"capacity": c}));
    }
    p.evaluations = n;
    p.distinct = n;
    p.count("programs", n);
    p.count("long_queue_programs", nd);
    p.count("queue_only_programs_with_larger_messages", ncap);
    p.sample(json!({"program": g.paths[g.paths.len() / 2]}));
    p.sample(json!({"program": g.paths[g.paths.len() - 1]}));
    for (path, e) in fails {
        if e.starts_with("MACHINERY") {
            p.machinery.push(e);
        } else {
            p.fail(format!("{} :: program {:?}", e, path), json!({"max_chans": mc, "program": path}));
        }
    }
    (p, g)
}

pub fn run(tier: Tier, part_only: bool) -> i32 {
    let t0 = std::time::Instant::now();
    let (own, g) = part(tier);
    if part_only {
        return emit_part(&own);
    }
    let mut rep = Report::new("C19", tier, "model_checking");
    rep.t0 = t0;
    own.merge_into(&mut rep);
    let mut validated = own.evaluations;
    for v in ["memfd", "inproc"] {
        match run_variant_part(v, "C19", tier) {
            Ok(p) => {
                validated += p.evaluations;
                p.merge_into(&mut rep);
            },
            Err(e) => rep.machinery(e),
        }
    }
    let (mc, depth, maxs) = params(tier);
    rep.set("states", json!(g.states));
    rep.set("transitions", json!(g.paths.len()));
    rep.set("traces_validated_against_impl", json!(validated));
    rep.set("model_depth", json!(g.depth));
    rep.set("model_closed_under_bounds", json!(g.closed));
    let complete_to_depth = g.states < maxs;
    rep.set("every_program_up_to_depth_covered", json!(complete_to_depth));
    rep.set("model_bounds", json!({"max_channels": mc, "max_depth": depth, "max_queue_per_channel": 2, "max_live_handles": 4, "max_states": maxs}));
    rep.set("exhaustive", json!(complete_to_depth));
    if complete_to_depth {
        rep.set("bound_note", json!("exhaustive within the stated bounds: every program up to the depth bound over the model's alphabet was executed on all three builds; longer programs are not covered"));
    } else {
        rep.set("cap_note", json!("the model state graph hit its state cap before the depth bound: every state and transition found was covered on all three builds, but not every program up to that depth"));
    }
    rep.set("rule", json!("states/transitions are those of the reference model's graph under the alphabet {new channel, new channel through a one-shot server (new, connect, send, accept), a one-shot server whose client connects and leaves without sending (accept must then report that no sender is left), clone, drop handle, send data, send data+region, embed sender, embed receiver, recv when the model defines it, try_recv, try_recv_timeout(0), add receiver to the set, drain the set while events are pending, drop the whole set with its members, drop receiver}; every transition is one program executed from scratch on each of the three builds with all results compared to the model (values, order, empty, disconnected, send failures; select results per member); long_queue_programs: besides the graph, every program of the family (q in {31,32,33,63,64} [thorough: 3..=64] messages queued on one channel) x (sender kept / dropped first) x (consumed by recv, try_recv, try_recv_timeout(0) one step past the end, or by the set added before / after the sends, alone / next to a second member, then one more message) on all three builds; queue_only_programs_with_larger_messages: 12 shapes (64 x 100 bytes ... one message of 430000 bytes) sent without receiving, then received and compared, real socket buffers, on all three builds (the OS builds block on three of them: recorded known finding); programs are distinct by construction (different operation sequences) and every one counts as non-trivial (at least one operation executed on the real API with its result compared)"));
    rep.assume("operations the statement does not list (connecting to a non-existent name, selecting on an empty set, using a moved-out receiver, a blocking call the model says would block) are not in the alphabet");
    rep.assume("agreement of the three builds is established through agreement of each with the same deterministic model on the same programs");
    rep.finish()
}

pub fn replay(v: &Value) -> i32 {
    let c = &v["case"];
    if c.get("capacity").is_some() {
        let Ok(cc) = serde_json::from_value::<Capacity>(c["capacity"].clone()) else { return 2 };
        for r in 0..2 {
            let out = crate::exec::run_one(&Cfg { sched: true, ..Default::default() }, 60.0, &|| capacity_body(&cc));
            println!("replay round {} [{}]: {:?} -> {:?}", r, super::variant(), cc, super::describe(&out));
        }
        return 0;
    }
    let mc = c["max_chans"].as_u64().unwrap_or(2) as usize;
    let Ok(p) = serde_json::from_value::<Vec<Op>>(c["program"].clone()) else { return 2 };
    let cfg = Cfg { sched: true, ..Default::default() };
    for r in 0..2 {
        let out = crate::exec::run_one(&cfg, 60.0, &|| run_path_from(initial(mc), &p, true));
        println!("replay round {} [{}]: {:?} -> {:?}", r, super::variant(), p, super::describe(&out));
    }
    0
}
