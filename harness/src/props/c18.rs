//! C18 — unsafe transport code stays inside its buffers for every message shape.
//! Memory-safety monitors used as oracles on bounded-exhaustive case sets: the shapes of C01
//! (boundary windows), C13 (ENOBUFS retries), C15 (0..=64 attachments), C12 (truncated
//! transfers, receiver side) and shared-memory regions of every boundary length (including
//! zero-length regions at the platform API level), executed (a) on the AddressSanitizer build,
//! where the interposer additionally validates every range handed to the kernel, and (b) with
//! two different allocation fill bytes (a byte the transport never wrote cannot match the
//! expected payload under both fills); debug assertions / core ub_checks are on in all builds.
use super::{c01, c04, c12, c13, c15, emit_part, run_variant_part, sweep, Part};
use crate::common::{pattern, Report, Tier};
use crate::interpose::Cfg;
use ipc_channel::ipc::{self, IpcSharedMemory};
use ipc_channel::platform::{self, OsIpcSharedMemory};
use serde::{Deserialize, Serialize};
use serde_json::{json, Value};
use std::sync::atomic::Ordering;

#[derive(Clone, Debug, Serialize, Deserialize)]
pub struct ShmCase {
    pub len: usize,
    pub platform_level: bool,
    pub from_byte: bool,
    pub clones: usize,
    pub send: bool,
}

#[derive(Clone, Debug, Serialize, Deserialize)]
pub enum Shape {
    C04(c04::Case),
    C01(c01::Case),
    C12(c12::Case),
    C13(c13::Case),
    C15(c15::Case),
    Shm(ShmCase),
}

#[derive(Clone, Debug, Serialize, Deserialize)]
pub struct Case {
    pub fill: u8,
    pub shape: Shape,
}

fn shm_body(c: &ShmCase) -> Result<(), String> {
    let want: Vec<u8> = if c.from_byte { vec![0xab; c.len] } else { pattern(c.len, 4) };
    if c.platform_level {
        #[cfg(not(feature = "inproc"))]
        {
            let r = if c.from_byte { OsIpcSharedMemory::from_byte(0xab, c.len) } else { OsIpcSharedMemory::from_bytes(&want) };
            if &*r != &want[..] {
                return Err("creator reads different bytes".into());
            }
            let mut all = vec![r];
            for _ in 0..c.clones {
                let k = all[0].clone();
                if &*k != &want[..] {
                    return Err("clone reads different bytes".into());
                }
                all.push(k);
            }
            if c.send {
                let (tx, rx) = platform::channel().map_err(|e| format!("{:?}", e))?;
                let r0 = all.pop().unwrap();
                tx.send(&[1, 2, 3], vec![], vec![r0]).map_err(|e| format!("send: {:?}", e))?;
                let (d, ch, mut regs) = rx.recv().map_err(|e| format!("recv: {:?}", e))?;
                if d != [1, 2, 3] || !ch.is_empty() || regs.len() != 1 {
                    return Err(format!("platform message mangled: {} bytes, {} channels, {} regions", d.len(), ch.len(), regs.len()));
                }
                let got = regs.pop().unwrap();
                if &*got != &want[..] {
                    return Err(format!("received region reads {} bytes, expected {}", got.len(), want.len()));
                }
            }
        }
        return Ok(());
    }
    let r = if c.from_byte { IpcSharedMemory::from_byte(0xab, c.len) } else { IpcSharedMemory::from_bytes(&want) };
    if &*r != &want[..] {
        return Err("creator reads different bytes".into());
    }
    let mut all = vec![r];
    for _ in 0..c.clones {
        let k = all[0].clone();
        if &*k != &want[..] {
            return Err("clone reads different bytes".into());
        }
        all.push(k);
    }
    if c.send {
        let (tx, rx) = ipc::channel::<(u8, IpcSharedMemory)>().map_err(|e| e.to_string())?;
        tx.send((9, all.pop().unwrap())).map_err(|e| e.to_string())?;
        let (n, got) = rx.recv().map_err(|e| format!("{:?}", e))?;
        if n != 9 || &*got != &want[..] {
            return Err(format!("received region reads {} bytes, expected {}", got.len(), want.len()));
        }
    }
    Ok(())
}

fn body(c: &Case) -> Result<(), String> {
    crate::FILL.store(c.fill, Ordering::SeqCst);
    match &c.shape {
        Shape::C04(x) => c04::body(x),
        Shape::C01(x) => c01::run_case(x),
        Shape::C12(x) => c12::body(x),
        Shape::C13(x) => c13::body(x),
        Shape::C15(x) => c15::body(x),
        Shape::Shm(x) => shm_body(x),
    }
}

fn cfg_of(c: &Case) -> Cfg {
    match &c.shape {
        Shape::C04(x) => c04::cfg_of(x),
        Shape::C01(x) => c01::cfg_of(x),
        Shape::C12(x) => c12::cfg_of(x),
        Shape::C13(x) => c13::cfg_of(x),
        Shape::C15(x) => c15::cfg_of(x),
        Shape::Shm(_) => Cfg { sched: true, ..Default::default() },
    }
}

fn shapes(tier: Tier) -> Result<Vec<Shape>, String> {
    let quick = tier.is_quick();
    let mut v = Vec::new();
    // C01 boundary windows
    if cfg!(not(feature = "inproc")) {
        let bufs = if quick { vec![c01::BufCfg::Fake(4608), c01::BufCfg::Real(4608)] } else { vec![c01::BufCfg::Fake(4608), c01::BufCfg::Real(4608), c01::BufCfg::Fake(8192), c01::BufCfg::Real(16384), c01::BufCfg::Default] };
        for b in bufs {
            let sz = b.sizes()?;
            for len in c01::windows(sz, if quick { 3 } else { 4 }) {
                if quick && len % 2 == 1 && len > 20 {
                    continue;
                }
                v.push(Shape::C01(c01::Case::BytesThreaded { buf: b.clone(), len }));
            }
        }
    }
    // C04: mixed attachments at every position (sequences of length <= 2 quick / 3 thorough, and chains)
    for c in c04::cases(Tier::Quick) {
        let keep = match &c {
            c04::Case::Seq(s) => s.kinds.len() <= if quick { 2 } else { 3 },
            c04::Case::Count(_) => false,
            c04::Case::Chain(ch) => ch.hops.len() <= if quick { 1 } else { 3 },
        };
        if keep {
            v.push(Shape::C04(c));
        }
    }
    // C13 retries
    for c in c13::cases(Tier::Quick) {
        if quick && (c.mask % 3 != 0 || c.fake_sndbuf.is_none()) {
            continue;
        }
        v.push(Shape::C13(c));
    }
    // C15: 0..=64 attachments
    for c in c15::cases(Tier::Thorough) {
        if c.count > 66 {
            continue;
        }
        if quick && !(c.count <= 2 || c.count >= 62) {
            continue;
        }
        v.push(Shape::C15(c));
    }
    // C12: truncated transfers seen by the receiver
    for c in c12::cases(Tier::Quick)? {
        if quick && (c.preceding || c.watch == c12::Watch::Router) {
            continue;
        }
        v.push(Shape::C12(c));
    }
    // regions
    let p = 4096usize;
    let lens = [0usize, 1, 2, p - 1, p, p + 1, 2 * p - 1, 2 * p, 2 * p + 1, 100_000];
    for &len in &lens {
        for platform_level in [false, true] {
            for from_byte in [false, true] {
                for clones in [0usize, 2] {
                    for send in [false, true] {
                        v.push(Shape::Shm(ShmCase { len, platform_level, from_byte, clones, send }));
                    }
                }
            }
        }
    }
    Ok(v)
}

fn part(tier: Tier) -> Part {
    let mut p = Part::new();
    let shapes = match shapes(tier) {
        Ok(s) => s,
        Err(e) => {
            if e.contains("died") {
                p.fail(format!("[other] sending/receiving one 4-packet message killed the process ({})", e), json!({"probe": "sizes"}));
            } else {
                p.machinery.push(e);
            }
            return p;
        },
    };
    let asan = cfg!(vcheck_asan);
    // asan build: one fill (ASan's own checks are the oracle); plain build: two fills
    let fills: Vec<u8> = if asan { vec![0x5a] } else { vec![0x5a, 0xc3] };
    let mut cs = Vec::new();
    for s in &shapes {
        for f in &fills {
            cs.push(Case { fill: *f, shape: s.clone() });
        }
    }
    let mut n = 0u64;
    let mut fails = Vec::new();
    let mut mach = Vec::new();
    sweep(&cs, 300.0, &cfg_of, &body, &mut |_, c, out| {
        n += 1;
        match super::describe(out) {
            Ok(_) => {},
            Err(e) if e.contains("MACHINERY") => mach.push(format!("{} :: {:?}", e, c)),
            Err(e) => fails.push((c.clone(), e)),
        }
    });
    p.evaluations = n;
    p.distinct = n;
    p.count("cases", n);
    p.count("shapes", shapes.len() as u64);
    p.machinery = mach;
    if let Some(c) = cs.get(cs.len() / 2) {
        p.sample(serde_json::to_value(c).unwrap());
    }
    if let Some(c) = cs.last() {
        p.sample(serde_json::to_value(c).unwrap());
    }
    for (c, e) in fails {
        let class = match &c.shape {
            Shape::Shm(s) if s.len == 0 && s.platform_level => "zero-length-platform-region",
            _ => "other",
        };
        p.fail(format!("[{}] {} :: {:?}", class, e, c), serde_json::to_value(&c).unwrap());
    }
    p
}

pub fn run(tier: Tier, part_only: bool) -> i32 {
    let t0 = std::time::Instant::now();
    let own = part(tier);
    if part_only {
        return emit_part(&own);
    }
    let mut rep = Report::new("C18", tier, "exploration");
    rep.t0 = t0;
    own.merge_into(&mut rep);
    match run_variant_part("asan", "C18", tier) {
        Ok(p) => p.merge_into(&mut rep),
        Err(e) => rep.machinery(e),
    }
    rep.set("rule", json!("cases = message shapes of C04 (every item-kind sequence up to length 2 (3), flat and nested, small and 3-packet; transfer chains), C01 (+-16 windows around k x packet capacity, fake and kernel-enforced buffers), C13 (ENOBUFS patterns), C15 (0..=66 attachments x mixtures x data parts), C12 (every crash index, receiver side) and shared-memory regions (lengths 0,1,2,P-1,P,P+1,2P-1,2P,2P+1,100000 x platform/ipc API x from_bytes/from_byte x clones x sent or not), each executed on the plain build under two allocation fill bytes and on the AddressSanitizer build with kernel-boundary range checks; a case passes when its own payload/attachment oracle passes and no sanitizer report, assertion, ub_check or signal ends the process; cases are distinct by construction (different shape, monitor and fill) and every one counts as non-trivial (a message or region goes through the unsafe transport code under a monitor)"));
    rep.set("exhaustive", json!(true));
    rep.assume("AddressSanitizer (nightly -Zsanitizer=address) instruments the harness and the crate under test; the libc entry points the harness defines re-implement ASan's range checks at exactly the ranges the kernel may touch");
    rep.assume("valgrind is not used for the verdict (it flags the uninitialised padding of the malloc'ed control buffer, which is benign)");
    rep.finish()
}

pub fn replay(v: &Value) -> i32 {
    let Ok(c) = serde_json::from_value::<Case>(v["case"].clone()) else { return 2 };
    for r in 0..2 {
        let out = crate::exec::run_one(&cfg_of(&c), 300.0, &|| body(&c));
        println!("replay round {}: {:?} -> {:?}", r, c, super::describe(&out));
    }
    0
}
