//! C20 — a receiver turned into an async stream yields the same messages, then ends.
//! E1: all schedules with <=B deviations of converting / sending / consuming tasks against the
//! real (process-global, fresh per execution) routing thread of the async module.
use super::e1::{self, sched_cfg, Scenario};
use crate::common::{Report, Tier};
use crate::exec::obs;
use futures::task::{Context, Poll};
use futures::{Stream, StreamExt};
use ipc_channel::ipc::{self, IpcReceiver, IpcSender};
use serde::{Deserialize, Serialize};
use serde_json::{json, Value};
use std::pin::Pin;
use std::sync::atomic::{AtomicBool, AtomicUsize, Ordering};
use std::sync::Arc;

#[derive(Clone, Debug, Serialize, Deserialize)]
pub struct Ch {
    pub pre: u32,
    pub post: u32,
    /// which task converts, feeds and consumes it (0 = main, 1 = helper)
    pub by: u8,
    /// consume with a hand-written poll loop and a counting waker instead of block_on
    pub manual: bool,
    /// the sender is dropped before the receiver is converted
    pub drop_before_convert: bool,
    /// the stream is dropped right after the conversion, never polled (its channel keeps getting
    /// messages): the other streams must not notice
    #[serde(default)]
    pub abandon: bool,
}

#[derive(Clone, Debug, Serialize, Deserialize)]
pub struct P {
    pub chans: Vec<Ch>,
}

struct ParkWaker {
    woken: AtomicBool,
    count: AtomicUsize,
    thread: std::thread::Thread,
}

impl futures::task::ArcWake for ParkWaker {
    fn wake_by_ref(a: &Arc<Self>) {
        // a waker may do work of its own (an executor's queue, a pipe): a visible step, so that
        // what the routing thread does around a wake can be interleaved with the other tasks (its
        // dispatch is otherwise pure user-space code between two waits)
        unsafe {
            libc::sched_yield();
        }
        a.count.fetch_add(1, Ordering::SeqCst);
        a.woken.store(true, Ordering::SeqCst);
        a.thread.unpark();
    }
}

fn consume<S: Stream<Item = Result<u32, ipc_channel::Error>> + Unpin>(mut s: S, manual: bool) -> Result<Vec<u32>, String> {
    let mut got = Vec::new();
    if !manual {
        loop {
            match futures::executor::block_on(s.next()) {
                Some(Ok(v)) => got.push(v),
                Some(Err(e)) => return Err(format!("stream item failed to decode: {}", e)),
                None => return Ok(got),
            }
            if got.len() > 1000 {
                return Err("stream does not end".into());
            }
        }
    }
    loop {
        match poll_until_ready(&mut s) {
            Some(Ok(v)) => got.push(v),
            Some(Err(e)) => return Err(format!("stream item failed to decode: {}", e)),
            None => return Ok(got),
        }
        if got.len() > 1000 {
            return Err("stream does not end".into());
        }
    }
}

/// Hand-written executor step. Every poll is made under a *new* waker (as when a stream is
/// polled from changing tasks): after a Pending poll under waker A the stream is polled once more
/// under waker B and the task then sleeps until B is woken -- the contract is that the waker of
/// the most recent poll is the one notified. A wake that goes elsewhere leaves this task asleep
/// for ever, which the scheduler reports as a deadlock.
fn poll_until_ready<S: Stream + Unpin>(s: &mut S) -> Option<S::Item> {
    let fresh = || Arc::new(ParkWaker { woken: AtomicBool::new(false), count: AtomicUsize::new(0), thread: std::thread::current() });
    loop {
        let a = fresh();
        let wa = futures::task::waker(a.clone());
        if let Poll::Ready(x) = Pin::new(&mut *s).poll_next(&mut Context::from_waker(&wa)) {
            return x;
        }
        let b = fresh();
        let wb = futures::task::waker(b.clone());
        if let Poll::Ready(x) = Pin::new(&mut *s).poll_next(&mut Context::from_waker(&wb)) {
            return x;
        }
        while !b.woken.swap(false, Ordering::SeqCst) {
            std::thread::park();
        }
    }
}

fn work(set: Vec<(usize, Ch, IpcSender<u32>, IpcReceiver<u32>)>) -> Result<(), String> {
    let mut streams = Vec::new();
    for (i, c, tx, rx) in set {
        let tx = if c.drop_before_convert {
            for s in 0..c.post {
                e1::inproc_point();
                tx.send(i as u32 * 100 + c.pre + s).map_err(|e| format!("send: {}", e))?;
            }
            drop(tx);
            None
        } else {
            Some(tx)
        };
        e1::inproc_point();
        let st = rx.to_stream();
        // (an abandoned stream is dropped right here)
        streams.push((i, c.clone(), tx, if c.abandon { None } else { Some(st) }));
    }
    let mut ready = Vec::new();
    for (i, c, tx, st) in streams {
        if let Some(tx) = tx {
            for s in 0..c.post {
                e1::inproc_point();
                tx.send(i as u32 * 100 + c.pre + s).map_err(|e| format!("send after conversion: {}", e))?;
            }
            drop(tx);
        }
        ready.push((i, c, st));
    }
    for (i, c, st) in ready {
        let Some(st) = st else { continue };
        e1::inproc_point();
        let got = consume(st, c.manual)?;
        let want: Vec<u32> = (0..c.pre + c.post).map(|s| i as u32 * 100 + s).collect();
        obs(format!("ch{}={:?}", i, got));
        if got != want {
            return Err(format!("stream of channel {} yielded {:?}, the channel carried {:?}", i, got, want));
        }
    }
    Ok(())
}

fn body(p: &P) -> Result<(), String> {
    let mut mine = Vec::new();
    let mut theirs = Vec::new();
    for (i, c) in p.chans.iter().enumerate() {
        let (tx, rx) = ipc::channel::<u32>().map_err(|e| e.to_string())?;
        for s in 0..c.pre {
            tx.send(i as u32 * 100 + s).map_err(|e| e.to_string())?;
        }
        if c.by == 0 {
            mine.push((i, c.clone(), tx, rx));
        } else {
            theirs.push((i, c.clone(), tx, rx));
        }
    }
    let h = if theirs.is_empty() { None } else { Some(std::thread::spawn(move || work(theirs))) };
    work(mine)?;
    if let Some(h) = h {
        h.join().map_err(|_| "helper panicked".to_string())??;
    }
    Ok(())
}

/// n receivers converted in a row while every channel is idle and every sender stays alive; then
/// one message on the last-converted channel must come out of its stream
fn quiet_burst_body(n: usize, manual: bool) -> Result<(), String> {
    let mut txs = Vec::new();
    let mut streams = Vec::new();
    for _ in 0..n {
        let (tx, rx) = ipc::channel::<u32>().map_err(|e| e.to_string())?;
        txs.push(tx);
        e1::inproc_point();
        streams.push(rx.to_stream());
    }
    e1::inproc_point();
    txs[n - 1].send(4242).map_err(|e| e.to_string())?;
    let mut last = streams.pop().unwrap();
    let first = if manual {
        poll_until_ready(&mut last)
    } else {
        futures::executor::block_on(last.next())
    };
    match first {
        Some(Ok(4242)) => {},
        other => return Err(format!("the stream converted last yielded {:?} instead of its message", other.map(|r| r.map_err(|e| e.to_string())))),
    }
    drop(txs);
    streams.push(last);
    for (i, st) in streams.into_iter().enumerate() {
        let got = consume(st, false)?;
        if !got.is_empty() {
            return Err(format!("stream {} yielded {:?} after its channel was idle", i, got));
        }
    }
    Ok(())
}

fn many_tasks_body(n: usize) -> Result<(), String> {
    let mut hs = Vec::new();
    for t in 0..n {
        hs.push(std::thread::spawn(move || -> Result<(), String> {
            let mut set = Vec::new();
            for k in 0..2usize {
                let i = t * 2 + k;
                let (tx, rx) = ipc::channel::<u32>().map_err(|e| e.to_string())?;
                tx.send(i as u32 * 100).map_err(|e| e.to_string())?;
                set.push((i, Ch { pre: 1, post: 1, by: 0, manual: k == 1, drop_before_convert: false, abandon: false }, tx, rx));
            }
            work(set)
        }));
    }
    for h in hs {
        h.join().map_err(|_| "converting task panicked".to_string())??;
    }
    Ok(())
}

pub fn scenarios(tier: Tier) -> Vec<Scenario> {
    let mut v = Vec::new();
    for (n, manual) in [(9usize, false), (12, true), (33, false)] {
        let mut cfg = sched_cfg();
        cfg.post_points = true;
        v.push(Scenario::new(format!("quiet burst of {} conversions{}", n, if manual { " (manual poll)" } else { "" }), cfg, if tier.is_quick() || n > 12 { 0 } else { 1 }, move || quiet_burst_body(n, manual)));
    }
    // conversions from four tasks at once
    {
        let mut cfg = sched_cfg();
        cfg.post_points = true;
        cfg.strict_deviations = true;
        v.push(Scenario::new("four converting tasks, two streams each (every non-default choice counts)", cfg, if tier.is_quick() { 1 } else { 2 }, move || many_tasks_body(4)));
    }
    let mut add = |chans: Vec<Ch>, bound: u32| {
        let p = P { chans };
        let name = format!("{:?}", p.chans.iter().map(|c| format!("pre{}/post{}/by{}{}{}{}", c.pre, c.post, c.by, if c.manual { "/manual" } else { "" }, if c.drop_before_convert { "/dropped-first" } else { "" }, if c.abandon { "/abandoned" } else { "" })).collect::<Vec<_>>());
        let mut cfg = sched_cfg();
        cfg.post_points = true;
        v.push(Scenario::new(name, cfg, bound, move || body(&p)));
    };
    let c = |pre, post, by, manual, d| Ch { pre, post, by, manual, drop_before_convert: d, abandon: false };
    let ab = |pre, post, by| Ch { pre, post, by, manual: false, drop_before_convert: false, abandon: true };
    // bursts: many conversions in a row (their wake-ups coalesce in one wait of the routing
    // thread) and long backlogs (the consumer far behind the routing thread)
    let burst = |n: usize, manual: bool| -> Vec<Ch> { (0..n).map(|i| c(if i == n - 1 { 1 } else { 0 }, if i % 4 == 0 { 1 } else { 0 }, 0, manual, false)).collect() };
    add(burst(12, false), if tier.is_quick() { 0 } else { 1 });
    add(burst(if tier.is_quick() { 20 } else { 40 }, true), 0);
    add(vec![c(if tier.is_quick() { 40 } else { 80 }, 3, 0, false, false)], if tier.is_quick() { 0 } else { 1 });
    add(vec![c(2, 45, 0, true, false), c(40, 0, 1, false, true)], 0);
    // an abandoned stream next to live ones
    add(vec![ab(1, 1, 0), c(1, 1, 0, false, false)], 2);
    add(vec![ab(2, 0, 1), c(0, 2, 0, true, false)], 2);
    if tier.is_quick() {
        add(vec![c(1, 1, 0, false, false)], 3);
        add(vec![c(0, 2, 0, true, false)], 3);
        add(vec![c(2, 0, 0, true, true)], 3);
        add(vec![c(1, 0, 0, false, false), c(0, 1, 1, true, false)], 2);
        add(vec![c(0, 1, 0, true, false), c(1, 1, 1, false, true)], 2);
    } else {
        for pre in 0..=2 {
            for post in 0..=2 {
                for manual in [false, true] {
                    for d in [false, true] {
                        add(vec![c(pre, post, 0, manual, d)], if pre + post <= 1 { 5 } else { 4 });
                    }
                }
            }
        }
        for (a, b) in [((1, 0), (0, 1)), ((0, 1), (1, 1)), ((2, 0), (0, 2)), ((1, 1), (1, 1))] {
            for m in [false, true] {
                add(vec![c(a.0, a.1, 0, m, false), c(b.0, b.1, 1, !m, false)], 3);
                add(vec![c(a.0, a.1, 0, m, true), c(b.0, b.1, 0, m, false)], 3);
            }
        }
    }
    v
}

pub fn run(tier: Tier, part_only: bool) -> i32 {
    super::run_with_inproc("C20", tier, part_only, "model_checking", &run_all)
}

fn run_all(rep: &mut Report, tier: Tier) {
    let mut scs = scenarios(tier);
    for sc in scs.iter_mut() {
        // in-process build: two tasks with long backlogs have a free choice at every harness point
        if cfg!(feature = "inproc") && sc.name.contains("/by1") && (sc.name.contains("pre40") || sc.name.contains("post45") || sc.name.contains("pre80")) {
            sc.cfg.strict_deviations = true;
            sc.bound = sc.bound.max(1);
        }
        sc.cfg.yield_alts = cfg!(feature = "inproc") && !sc.cfg.strict_deviations;
    }
    let tot = e1::run_scenarios(rep, &scs, &e1::strict_judge, if tier.is_quick() { 40.0 } else { 3000.0 });
    rep.set("deviation_bound_min", json!(tot.min_bound));
    rep.set("deviation_bound_max", json!(tot.max_bound));
    rep.set("evaluations", json!(tot.execs));
    rep.set("distinct_nontrivial", json!(tot.with_switch));
    rep.set("rule", json!("one evaluation = one complete schedule (<= bound deviations; scheduling points before every system call / futex wait and after every transmission) of tasks that convert 1-2 receivers into streams (0-2 messages queued before conversion, 0-2 sent after, sender dropped before or after conversion; optionally a stream that is dropped unpolled right after its conversion while its channel keeps getting messages), feed them and consume them with futures::executor::block_on or a hand-written poll loop with a parking waker, against the real routing thread; schedules are distinct by construction (the depth-first search never repeats a choice sequence) and a schedule counts as non-trivial when it contains at least one context switch; enumerated cases are distinct by construction"));
    rep.assume("the routing thread is a process-global lazy: every execution is a fresh process, so it starts in each execution");
    rep.assume("user-space-only steps (futures mpsc, AtomicWaker) between scheduling points are atomic");
}

pub fn replay(tier: Tier, v: &Value) -> i32 {
    let v = if v.get("variant").is_some() { &v["case"] } else { v };
    let mut scs = scenarios(tier);
    scs.extend(scenarios(if tier.is_quick() { Tier::Thorough } else { Tier::Quick }));
    e1::replay(&scs, v)
}
