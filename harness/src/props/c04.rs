//! C04 — endpoints sent inside messages keep their identity, position and backlog.
//! E2: (a) every sequence of length <= 4 (6) over eight item kinds, flat and nested in
//! Option / tuple / map positions, in a small and in a 3-packet enclosing message; (b) 0..=63
//! endpoints per message; (c) transfer chains of a receiver through 1..5 hops (same thread,
//! other thread, forked process) with a backlog sent before, between and after the hops.
use super::c15;
use super::sweep;
use crate::common::{pattern, Report, Tier};
use crate::exec::obs;
use crate::interpose::{self, Cfg};
use ipc_channel::ipc::{
    self, IpcBytesReceiver, IpcBytesSender, IpcError, IpcReceiver, IpcSender, IpcSharedMemory, OpaqueIpcReceiver, OpaqueIpcSender,
    TryRecvError,
};
use ipc_channel::platform::OsIpcSender;
use serde::{Deserialize, Serialize};
use serde_json::{json, Value};
use std::collections::{BTreeMap, HashSet};

#[derive(Clone, Copy, Debug, Serialize, Deserialize, PartialEq, Eq, Hash)]
pub enum K {
    Tx,
    Rx,
    OTx,
    ORx,
    BTx,
    BRx,
    Shm,
    Data,
}
pub const KINDS: [K; 8] = [K::Tx, K::Rx, K::OTx, K::ORx, K::BTx, K::BRx, K::Shm, K::Data];

#[derive(Serialize, Deserialize)]
pub enum Item {
    Tx(IpcSender<u32>),
    Rx(IpcReceiver<u32>),
    OTx(OpaqueIpcSender),
    ORx(OpaqueIpcReceiver),
    BTx(IpcBytesSender),
    BRx(IpcBytesReceiver),
    Shm(IpcSharedMemory),
    Data(u32),
}

#[derive(Serialize, Deserialize)]
pub struct Outer {
    pub pad: Vec<u8>,
    pub opt: Option<Box<Item>>,
    pub pair: (u8, Option<Item>),
    pub map: BTreeMap<String, Item>,
    pub items: Vec<Item>,
    pub tail: String,
}

enum Kept {
    RxOf(IpcReceiver<u32>),
    TxOf(IpcSender<u32>),
    BRxOf(IpcBytesReceiver),
    BTxOf(IpcBytesSender),
    Shm(Vec<u8>),
    Data(u32),
}

fn make(k: K, i: usize) -> Result<(Item, Kept), String> {
    Ok(match k {
        K::Tx | K::OTx => {
            let (t, r) = ipc::channel::<u32>().map_err(|e| e.to_string())?;
            (if k == K::Tx { Item::Tx(t) } else { Item::OTx(t.to_opaque()) }, Kept::RxOf(r))
        },
        K::Rx | K::ORx => {
            let (t, r) = ipc::channel::<u32>().map_err(|e| e.to_string())?;
            (if k == K::Rx { Item::Rx(r) } else { Item::ORx(r.to_opaque()) }, Kept::TxOf(t))
        },
        K::BTx => {
            let (t, r) = ipc::bytes_channel().map_err(|e| e.to_string())?;
            (Item::BTx(t), Kept::BRxOf(r))
        },
        K::BRx => {
            let (t, r) = ipc::bytes_channel().map_err(|e| e.to_string())?;
            (Item::BRx(r), Kept::BTxOf(t))
        },
        K::Shm => {
            let b = pattern(64 + i * 37, i as u64 + 100);
            (Item::Shm(IpcSharedMemory::from_bytes(&b)), Kept::Shm(b))
        },
        K::Data => (Item::Data(7000 + i as u32), Kept::Data(7000 + i as u32)),
    })
}

fn probe_one(i: usize, it: Item, k: &Kept) -> Result<Box<dyn std::any::Any>, String> {
    let nonce = 31000 + i as u32;
    let nb = nonce.to_le_bytes().to_vec();
    let bad = |what: &str| format!("position {}: {}", i, what);
    Ok(match (it, k) {
        (Item::Tx(t), Kept::RxOf(r)) => {
            t.send(nonce).map_err(|e| bad(&format!("received sender unusable: {}", e)))?;
            if !matches!(r.try_recv(), Ok(n) if n == nonce) {
                return Err(bad("the sender that arrived is not the one that was attached there"));
            }
            Box::new(t)
        },
        (Item::OTx(t), Kept::RxOf(r)) => {
            let t: IpcSender<u32> = t.to();
            t.send(nonce).map_err(|e| bad(&format!("received opaque sender unusable: {}", e)))?;
            if !matches!(r.try_recv(), Ok(n) if n == nonce) {
                return Err(bad("the opaque sender that arrived is not the one that was attached there"));
            }
            Box::new(t)
        },
        (Item::Rx(r), Kept::TxOf(t)) => {
            t.send(nonce).map_err(|e| bad(&format!("transferred receiver gone: {}", e)))?;
            if !matches!(r.try_recv(), Ok(n) if n == nonce) {
                return Err(bad("the receiver that arrived is not the one that was attached there"));
            }
            Box::new(r)
        },
        (Item::ORx(r), Kept::TxOf(t)) => {
            let r: IpcReceiver<u32> = r.to();
            t.send(nonce).map_err(|e| bad(&format!("transferred opaque receiver gone: {}", e)))?;
            if !matches!(r.try_recv(), Ok(n) if n == nonce) {
                return Err(bad("the opaque receiver that arrived is not the one that was attached there"));
            }
            Box::new(r)
        },
        (Item::BTx(t), Kept::BRxOf(r)) => {
            t.send(&nb).map_err(|e| bad(&format!("received bytes sender unusable: {}", e)))?;
            if !matches!(r.try_recv(), Ok(ref v) if *v == nb) {
                return Err(bad("the bytes sender that arrived is not the one that was attached there"));
            }
            Box::new(t)
        },
        (Item::BRx(r), Kept::BTxOf(t)) => {
            t.send(&nb).map_err(|e| bad(&format!("transferred bytes receiver gone: {}", e)))?;
            if !matches!(r.try_recv(), Ok(ref v) if *v == nb) {
                return Err(bad("the bytes receiver that arrived is not the one that was attached there"));
            }
            Box::new(r)
        },
        (Item::Shm(s), Kept::Shm(b)) => {
            if &*s != &b[..] {
                return Err(bad("region has the contents of another attachment"));
            }
            Box::new(())
        },
        (Item::Data(d), Kept::Data(e)) => {
            if d != *e {
                return Err(bad("data changed"));
            }
            Box::new(())
        },
        _ => return Err(bad("item kind changed in transit")),
    })
}

#[derive(Clone, Debug, Serialize, Deserialize, PartialEq, Eq, Hash)]
pub struct SeqCase {
    pub kinds: Vec<K>,
    pub nested: bool,
    pub big: bool,
}

fn seq_body(c: &SeqCase) -> Result<(), String> {
    let (tx, rx) = ipc::channel::<Outer>().map_err(|e| e.to_string())?;
    let mut items = Vec::new();
    let mut kept = Vec::new();
    for (i, k) in c.kinds.iter().enumerate() {
        let (it, kp) = make(*k, i)?;
        items.push(Some(it));
        kept.push(kp);
    }
    let m = OsIpcSender::get_max_fragment_size();
    let pad = pattern(if c.big { if m == usize::MAX { 10000 } else { 2 * m + 77 } } else { 5 }, 6);
    let mut o = Outer { pad: pad.clone(), opt: None, pair: (9, None), map: BTreeMap::new(), items: Vec::new(), tail: "tail".into() };
    // where does item i go?  nested: 0 -> Option, 1 -> tuple, 2 -> map, rest -> vector
    for (i, it) in items.iter_mut().enumerate() {
        let it = it.take().unwrap();
        if c.nested && i == 0 {
            o.opt = Some(Box::new(it));
        } else if c.nested && i == 1 {
            o.pair.1 = Some(it);
        } else if c.nested && i == 2 {
            o.map.insert("k".into(), it);
        } else {
            o.items.push(it);
        }
    }
    tx.send(o).map_err(|e| format!("send: {}", e))?;
    let got = rx.recv().map_err(|e| format!("recv: {:?}", e))?;
    if got.pad != pad || got.tail != "tail" || got.pair.0 != 9 {
        return Err("plain data around the endpoints changed".into());
    }
    let mut alive = Vec::new();
    let mut flat: Vec<(usize, Item)> = Vec::new();
    let mut rest = got.items.into_iter();
    let n = c.kinds.len();
    let mut opt = got.opt;
    let mut pr = got.pair.1;
    let mut mp = got.map;
    for i in 0..n {
        let it = if c.nested && i == 0 {
            opt.take().map(|b| *b)
        } else if c.nested && i == 1 {
            pr.take()
        } else if c.nested && i == 2 {
            mp.remove("k")
        } else {
            rest.next()
        };
        flat.push((i, it.ok_or_else(|| format!("position {}: item missing", i))?));
    }
    if rest.next().is_some() || opt.is_some() || pr.is_some() || !mp.is_empty() {
        return Err("extra items arrived".into());
    }
    for (i, it) in flat {
        alive.push(probe_one(i, it, &kept[i])?);
    }
    match rx.try_recv() {
        Err(TryRecvError::Empty) => {},
        other => return Err(format!("after the message: {:?}", other.map(|_| "another message"))),
    }
    Ok(())
}

// --- transfer chains ------------------------------------------------------------------------------

#[derive(Clone, Copy, Debug, Serialize, Deserialize, PartialEq, Eq, Hash)]
pub enum Hop {
    Same,
    Thread,
    /// through a forked process (counts as one hop into it and one hop back)
    Proc,
}

#[derive(Clone, Debug, Serialize, Deserialize, PartialEq, Eq, Hash)]
pub struct Chain {
    pub hops: Vec<Hop>,
    pub backlog: usize,
    /// poll the receiver (non-blocking, possibly consuming one message) before each hop
    pub poll_before_hop: bool,
}

fn chain_body(c: &Chain) -> Result<(), String> {
    let (tx, rx0) = ipc::channel::<u32>().map_err(|e| e.to_string())?;
    let mut rx = rx0;
    let mut next = 0u32;
    let mut expect: std::collections::VecDeque<u32> = Default::default();
    let mut send = |expect: &mut std::collections::VecDeque<u32>| -> Result<(), String> {
        tx.send(next).map_err(|e| format!("send #{} to a receiver that is pending or in transit failed: {}", next, e))?;
        expect.push_back(next);
        next += 1;
        Ok(())
    };
    for _ in 0..c.backlog {
        send(&mut expect)?;
    }
    for hop in &c.hops {
        if c.poll_before_hop {
            match rx.try_recv() {
                Ok(v) => {
                    let want = expect.pop_front();
                    if Some(v) != want {
                        return Err(format!("poll before a hop returned {} but {:?} was next", v, want));
                    }
                },
                Err(TryRecvError::Empty) if expect.is_empty() => {},
                Err(e) => return Err(format!("poll before a hop: {:?} with {} messages pending", e, expect.len())),
            }
        }
        match hop {
            Hop::Same => {
                let (ctx, crx) = ipc::channel::<IpcReceiver<u32>>().map_err(|e| e.to_string())?;
                ctx.send(rx).map_err(|e| e.to_string())?;
                send(&mut expect)?; // while in transit
                rx = crx.recv().map_err(|e| format!("{:?}", e))?;
            },
            Hop::Thread => {
                let (ctx, crx) = ipc::channel::<IpcReceiver<u32>>().map_err(|e| e.to_string())?;
                ctx.send(rx).map_err(|e| e.to_string())?;
                send(&mut expect)?;
                rx = std::thread::spawn(move || crx.recv()).join().map_err(|_| "hop thread panicked".to_string())?.map_err(|e| format!("{:?}", e))?;
            },
            Hop::Proc => unsafe {
                let (atx, arx) = ipc::channel::<IpcReceiver<u32>>().map_err(|e| e.to_string())?;
                let (btx, brx) = ipc::channel::<IpcReceiver<u32>>().map_err(|e| e.to_string())?;
                let pid = libc::fork();
                if pid == 0 {
                    interpose::after_fork_in_child();
                    drop(brx);
                    drop(atx);
                    let r = match arx.recv() {
                        Ok(r) => r,
                        Err(_) => libc::_exit(5),
                    };
                    if btx.send(r).is_err() {
                        libc::_exit(6);
                    }
                    libc::_exit(0);
                }
                drop(arx);
                drop(btx);
                atx.send(rx).map_err(|e| e.to_string())?;
                send(&mut expect)?;
                let mut st = 0;
                libc::waitpid(pid, &mut st, 0);
                if !(libc::WIFEXITED(st) && libc::WEXITSTATUS(st) == 0) {
                    return Err(format!("the forwarding process failed (status {:#x})", st));
                }
                rx = brx.recv().map_err(|e| format!("receiver did not come back from the process: {:?}", e))?;
            },
        }
        send(&mut expect)?; // between hops
    }
    send(&mut expect)?;
    send(&mut expect)?;
    let total = expect.len();
    for want in expect {
        match rx.recv() {
            Ok(v) if v == want => {},
            Ok(v) => return Err(format!("the transferred receiver yielded {} where {} was expected (backlog lost or reordered)", v, want)),
            Err(e) => return Err(format!("the transferred receiver failed at message {}: {:?}", want, e)),
        }
    }
    // a message that is sent only once the final holder is already waiting for it
    let h = std::thread::spawn(move || {
        let r = tx.send(777_777);
        drop(tx);
        r.is_ok()
    });
    match rx.recv() {
        Ok(777_777) => {},
        other => return Err(format!("the final holder waited for a later message and got {:?} (the transferred receiver must still block and deliver)", other)),
    }
    if !h.join().map_err(|_| "late sender panicked".to_string())? {
        return Err("late send failed".into());
    }
    match rx.recv() {
        Err(IpcError::Disconnected) => {},
        other => return Err(format!("after the last message: {:?}", other)),
    }
    obs(format!("delivered={}", total));
    Ok(())
}

#[derive(Clone, Debug, Serialize, Deserialize)]
pub enum Case {
    Seq(SeqCase),
    Count(c15::Case),
    Chain(Chain),
}

pub fn body(c: &Case) -> Result<(), String> {
    match c {
        Case::Seq(s) => seq_body(s),
        Case::Count(x) => c15::body(x),
        Case::Chain(x) => chain_body(x),
    }
}

pub fn cfg_of(_: &Case) -> Cfg {
    Cfg { sched: true, fake_sndbuf: Some(4608), ..Default::default() }
}

pub fn cases(tier: Tier) -> Vec<Case> {
    let mut v = Vec::new();
    let maxlen = if tier.is_quick() { 3 } else { 5 };
    let mut cur: Vec<Vec<K>> = vec![vec![]];
    let mut all: Vec<Vec<K>> = vec![vec![]];
    for _ in 0..maxlen {
        let mut nx = Vec::new();
        for p in &cur {
            for k in KINDS {
                let mut q = p.clone();
                q.push(k);
                nx.push(q);
            }
        }
        all.extend(nx.iter().cloned());
        cur = nx;
    }
    if tier.is_quick() {
        // length 4: every sequence whose first three kinds are pairwise different plus a fourth
        for a in KINDS {
            for b in KINDS {
                for c in [K::Rx, K::Shm, K::BTx] {
                    for d in [K::Tx, K::ORx, K::Shm] {
                        all.push(vec![a, b, c, d]);
                    }
                }
            }
        }
    }
    for kinds in all {
        for nested in [false, true] {
            for big in [false, true] {
                if tier.is_quick() && kinds.len() == 3 && nested != big {
                    continue;
                }
                v.push(Case::Seq(SeqCase { kinds: kinds.clone(), nested, big }));
            }
        }
    }
    // counts
    // (up to and just past what one message can carry: a value that is accepted must arrive with
    // every endpoint in place, whatever mixture of endpoints and regions filled the message)
    let counts: Vec<usize> = if tier.is_quick() { vec![0, 1, 2, 31, 62, 63, 64, 65, 66] } else { (0..=66).collect() };
    for count in counts {
        for mix in [c15::Mix::Senders, c15::Mix::Receivers, c15::Mix::Alternating] {
            for data in [c15::DataPart::Small, c15::DataPart::P3] {
                v.push(Case::Count(c15::Case { count, mix, data, enobufs: 0 }));
            }
        }
    }
    // chains
    let backlogs: Vec<usize> = if tier.is_quick() { vec![0, 1, 3] } else { vec![0, 1, 2, 3, 5, 10, 20] };
    let maxhops = if tier.is_quick() { 3 } else { 5 };
    let mut hs: Vec<Vec<Hop>> = vec![];
    let mut cur: Vec<Vec<Hop>> = vec![vec![]];
    for _ in 0..maxhops {
        let mut nx = Vec::new();
        for p in &cur {
            for h in [Hop::Same, Hop::Thread, Hop::Proc] {
                if h == Hop::Proc && p.iter().filter(|x| **x == Hop::Proc).count() >= 1 {
                    continue;
                }
                let mut q = p.clone();
                q.push(h);
                nx.push(q);
            }
        }
        hs.extend(nx.iter().cloned());
        cur = nx;
    }
    for hops in hs {
        for &backlog in &backlogs {
            for poll in [false, true] {
                v.push(Case::Chain(Chain { hops: hops.clone(), backlog, poll_before_hop: poll }));
            }
        }
    }
    v
}

pub fn run(tier: Tier, part_only: bool) -> i32 {
    super::run_with_inproc("C04", tier, part_only, "exploration", &run_all)
}

fn run_all(rep: &mut Report, tier: Tier) {
    let mut cs = cases(tier);
    if cfg!(feature = "inproc") {
        // in-process channels do not cross fork()
        cs.retain(|c| !matches!(c, Case::Chain(ch) if ch.hops.contains(&Hop::Proc)));
    }
    let mut n = 0u64;
    let mut nontrivial = 0u64;
    let mut fails = Vec::new();
    sweep(&cs, 120.0, &cfg_of, &body, &mut |_, c, out| {
        n += 1;
        match super::describe(out) {
            Ok(_) => {
                let trivial = matches!(c, Case::Seq(s) if s.kinds.len() < 2);
                if !trivial {
                    nontrivial += 1;
                }
            },
            Err(e) if e.starts_with("MACHINERY") => rep.machinery(format!("{} :: {:?}", e, c)),
            Err(e) => fails.push((c.clone(), e)),
        }
    });
    for (c, e) in fails {
        rep.fail(&format!("{} :: {:?}", e, c), serde_json::to_value(&c).unwrap());
    }
    let _ = HashSet::<u8>::new();
    rep.set("evaluations", json!(n));
    rep.set("distinct_nontrivial", json!(nontrivial));
    rep.set("rule", json!("cases: (a) every sequence of length <= 3 (5 thorough; a covering family of length 4 in quick) over {sender, receiver, opaque sender, opaque receiver, bytes sender, bytes receiver, region, data}, flat in a Vec or nested into Option / tuple / map positions, in a small and in a 3-packet enclosing message; (b) 0,1,2,31,62..66 (every 0..=66) endpoints x {senders, receivers, alternating with regions} x {small, 3-packet}; (c) transfer chains of one receiver over 1..3 (5) hops in {same thread, other thread, forked process} x backlog {0,1,3} (..20) sent before, one message while in transit and one between hops, two after, optionally polling the receiver before each hop; every received endpoint is probed with a nonce against the channel attached at that position; distinct by construction; non-trivial = at least two items / any count or chain case"));
    rep.set("exhaustive", json!(true));
    rep.sample(serde_json::to_value(&cs[cs.len() / 3]).unwrap());
    rep.sample(serde_json::to_value(&cs[cs.len() - 1]).unwrap());
    rep.assume("the handle a receiver was sent from is never used afterwards (unspecified)");
}

pub fn replay(v: &Value) -> i32 {
    let v = if v.get("variant").is_some() { &v["case"] } else { v };
    let Ok(c) = serde_json::from_value::<Case>(v.clone()) else { return 2 };
    for r in 0..2 {
        let out = crate::exec::run_one(&cfg_of(&c), 120.0, &|| body(&c));
        println!("replay round {}: {:?} -> {:?}", r, c, super::describe(&out));
    }
    0
}
