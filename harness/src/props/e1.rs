//! Shared plumbing for the E1 (controlled-scheduler) checks: a check is a list of scenarios,
//! each explored up to its deviation bound; statistics are merged into the report.
#![allow(dead_code)]
use crate::common::Report;
use crate::exec::{Outcome, Status};
use crate::explore::{explore, ExploreCfg, ExploreStats};
use crate::interpose::Cfg;
use serde_json::{json, Value};

pub struct Scenario {
    pub name: String,
    pub cfg: Cfg,
    pub bound: u32,
    pub body: Box<dyn Fn() -> Result<(), String>>,
    /// cap on executions (0 = none); hitting it makes the run non-exhaustive
    pub max_execs: u64,
}

impl Scenario {
    pub fn new(name: impl Into<String>, cfg: Cfg, bound: u32, body: impl Fn() -> Result<(), String> + 'static) -> Scenario {
        Scenario { name: name.into(), cfg, bound, body: Box::new(body), max_execs: 0 }
    }
}

/// In the in-process build no system call separates one library operation from the next, so
/// the harness offers the scheduler a choice (a yield: default = let the others go first, one
/// deviation = carry on) where the OS build gets its points from the system calls themselves.
pub fn inproc_point() {
    if cfg!(feature = "inproc") {
        unsafe {
            libc::sched_yield();
        }
    }
}

pub fn sched_cfg() -> Cfg {
    Cfg { sched: true, fake_sndbuf: Some(4608), ..Default::default() }
}

/// default judge: the body's own oracle, plus no deadlock, no panic on any thread
pub fn strict_judge(o: &Outcome) -> Result<(), String> {
    match o.status() {
        Status::Ok => {
            let r = o.result.as_ref().unwrap();
            if !r.panics.is_empty() {
                return Err(format!("panic on a thread: {}", r.panics.join(" | ")));
            }
            Ok(())
        },
        Status::Violation(v) => Err(v),
        Status::Deadlock(d) => Err(format!("deadlock (a call that had a result due never returned): {}", d)),
        Status::Panic(p) => Err(format!(
            "panic/crash: {} {}",
            p,
            o.result.as_ref().map(|r| r.panics.join(" | ")).unwrap_or_default()
        )),
        Status::Machinery(m) => Err(format!("MACHINERY {}", m)),
    }
}

#[derive(Default)]
pub struct Totals {
    pub execs: u64,
    pub states: u64,
    pub transitions: u64,
    pub outcomes: u64,
    pub capped: bool,
    pub mismatches: u64,
    pub with_switch: u64,
    pub max_bound: u32,
    pub min_bound: u32,
    pub determinism_checks: u64,
    pub scenarios: u64,
    pub timers: u64,
}

pub fn run_scenarios(
    rep: &mut Report,
    scs: &[Scenario],
    judge: &dyn Fn(&Outcome) -> Result<(), String>,
    wall_budget_s: f64,
) -> Totals {
    let mut tot = Totals { min_bound: u32::MAX, ..Default::default() };
    let t0 = std::time::Instant::now();
    let mut per: Vec<Value> = Vec::new();
    let mut best_samples: Vec<(usize, usize, Value)> = Vec::new();
    for (i, sc) in scs.iter().enumerate() {
        let mut ec = ExploreCfg::new(sc.cfg.clone(), sc.bound);
        if sc.max_execs > 0 {
            ec.max_execs = sc.max_execs;
        }
        let left = wall_budget_s - t0.elapsed().as_secs_f64();
        // fair share of what is left, but never less than a few seconds
        ec.max_wall_s = (left / (scs.len() - i) as f64 * 2.0).max(5.0);
        let st: ExploreStats = explore(&ec, &*sc.body, judge);
        tot.execs += st.execs;
        tot.states += st.states.len() as u64;
        tot.transitions += st.transitions;
        tot.outcomes += st.outcomes.len() as u64;
        tot.capped |= st.capped;
        tot.mismatches += st.mismatches;
        tot.with_switch += st.with_switch;
        tot.max_bound = tot.max_bound.max(sc.bound);
        tot.min_bound = tot.min_bound.min(sc.bound);
        tot.determinism_checks += st.determinism_checks;
        tot.scenarios += 1;
        tot.timers += st.timers;
        for m in &st.machinery_errors {
            rep.machinery(format!("scenario {}: {}", sc.name, m));
        }
        for v in &st.violations {
            let what = match &v.status {
                Status::Violation(s) => s.clone(),
                Status::Deadlock(d) => format!("deadlock: {}", d),
                Status::Panic(p) => format!("panic: {} {}", p, v.panics.join(" | ")),
                s => format!("{:?}", s),
            };
            rep.fail(
                &format!("{} :: scenario {}", what, sc.name),
                json!({"engine": "E1", "scenario": sc.name, "choices": v.choices, "obs": v.obs, "panics": v.panics,
                       "trace": v.trace.iter().map(|t| format!("t{} {} fd{} obj{:x}.{} len{} -> {}", t.task, t.call, t.fd, t.obj, t.end, t.len, t.res)).collect::<Vec<_>>()}),
            );
        }
        if std::env::var("VC_VERBOSE").is_ok() {
            eprintln!("scenario {} bound {}: schedules {} by_deviations {:?} states {} outcomes {} max_points {} capped {}", sc.name, sc.bound, st.execs, st.by_cost, st.states.len(), st.outcomes.len(), st.max_points, st.capped);
        }
        if per.len() < 400 {
            per.push(json!({"scenario": sc.name, "bound": sc.bound, "schedules": st.execs, "by_deviations": st.by_cost,
                            "states": st.states.len(), "transitions": st.transitions, "distinct_outcomes": st.outcomes.len(),
                            "max_points": st.max_points, "capped": st.capped}));
        }
        // samples: prefer scenarios with several distinct outcomes; show one complete schedule with
        // the maximum number of deviations (choice index per scheduling point / alternatives there)
        if let Some((choices, nalts, o)) = &st.example {
            let trim = |v: &Vec<String>| -> Vec<String> { v.iter().map(|x| if x.len() > 300 { format!("{}...", &x[..300]) } else { x.clone() }).collect() };
            let cand = json!({"scenario": sc.name, "bound": sc.bound, "schedules": st.execs, "distinct_outcomes": st.outcomes.len(),
                              "one_schedule_choices": choices, "alternatives_at_each_point": nalts, "its_observation": trim(o)});
            best_samples.push((st.outcomes.len(), choices.iter().filter(|c| **c != 0).count(), cand));
        }
    }
    best_samples.sort_by(|a, b| (b.0, b.1).cmp(&(a.0, a.1)));
    for (_, _, v) in best_samples.into_iter().take(3) {
        rep.sample(v);
    }
    rep.add("states", tot.states);
    rep.add("transitions", tot.transitions);
    rep.add("traces_validated_against_impl", tot.execs);
    rep.add("schedules", tot.execs);
    rep.add("schedules_with_context_switch", tot.with_switch);
    rep.add("distinct_outcomes_summed_over_scenarios", tot.outcomes);
    rep.add("enabledness_mismatches", tot.mismatches);
    rep.add("determinism_rechecks", tot.determinism_checks);
    rep.add("timer_alternatives_taken", tot.timers);
    let mut cur = rep.coverage.get("scenarios").and_then(|v| v.as_array().cloned()).unwrap_or_default();
    cur.extend(per);
    rep.set("scenarios", Value::Array(cur));
    if tot.capped {
        rep.set("exhaustive", json!(false));
        rep.set("cap_note", json!("a wall-time or execution cap was hit in at least one scenario; see scenarios[].capped"));
    } else if !rep.coverage.contains_key("exhaustive") {
        rep.set("exhaustive", json!(true));
    }
    tot
}

/// re-run a recorded schedule twice and print what happened
pub fn replay(scs: &[Scenario], v: &Value) -> i32 {
    let name = v["scenario"].as_str().unwrap_or("");
    let Some(sc) = scs.iter().find(|s| s.name == name) else {
        eprintln!("scenario {:?} not found among {} scenarios of this tier/variant", name, scs.len());
        return 2;
    };
    let choices: Vec<u8> = v["choices"].as_array().map(|a| a.iter().map(|x| x.as_u64().unwrap_or(0) as u8).collect()).unwrap_or_default();
    let mut cfg = sc.cfg.clone();
    cfg.prefix = choices;
    cfg.trace = true;
    let mut prev: Option<(Status, Vec<String>)> = None;
    for round in 0..2 {
        let out = crate::exec::run_one(&cfg, 60.0, &*sc.body);
        let st = out.status();
        let obs = out.result.as_ref().map(|r| r.obs.clone()).unwrap_or_default();
        println!("replay round {}: status {:?}", round, st);
        if round == 0 {
            if let Some(r) = &out.result {
                for o in &r.obs {
                    println!("  obs: {}", o);
                }
                for p in &r.panics {
                    println!("  panic: {}", p);
                }
                for t in &r.trace {
                    println!("  t{} {} fd{} obj{:x}.{} len{} -> {}", t.task, t.call, t.fd, t.obj, t.end, t.len, t.res);
                }
            }
        }
        if let Some(p) = &prev {
            if p.0 != st || p.1 != obs {
                println!("MACHINERY-ERROR replay is not deterministic");
                return 2;
            }
        }
        prev = Some((st, obs));
    }
    0
}
