//! C09 — sending to a vanished receiver fails cleanly; one in transit still counts.
//! E2: streams of sends x drop position x who drops x how the receiver is held, SIGPIPE at its
//! default disposition, single task under the scheduler (a send that blocks is an exact
//! deadlock); E1: the drop racing the stream from another task.
use super::c02::{payload, validate, CLOCK};
use super::e1::{self, sched_cfg, Scenario};
use super::sweep;
use crate::common::{Report, Tier};
use crate::exec::obs;
use crate::interpose::{self, Cfg};
use ipc_channel::ipc::{self, IpcReceiver, IpcSender, IpcSharedMemory};
use ipc_channel::platform::OsIpcSender;
use serde::{Deserialize, Serialize};
use serde_json::{json, Value};
use std::collections::HashSet;
use std::sync::atomic::Ordering;

type Msg = (Vec<u8>, Option<IpcSender<u32>>, Option<IpcSharedMemory>, Option<IpcReceiver<u32>>);

#[derive(Clone, Copy, Debug, Serialize, Deserialize, PartialEq, Eq, Hash)]
pub enum Who {
    Same,
    Thread,
    Proc,
}

#[derive(Clone, Copy, Debug, Serialize, Deserialize, PartialEq, Eq, Hash)]
pub enum Held {
    Direct,
    /// inside an undelivered message on a carrier whose receiver is dropped at the drop position
    CarrierDropped,
    /// inside an undelivered message on a carrier; unpacked at the "drop" position (nothing vanishes)
    TransitUnpacked,
}

#[derive(Clone, Debug, Serialize, Deserialize, PartialEq, Eq, Hash)]
pub struct Case {
    /// (big = 3 packets, with attachments)
    pub stream: Vec<(bool, bool)>,
    pub drop_at: usize,
    pub who: Who,
    pub held: Held,
}

/// the message, plus (when attachments are requested) the sender of the channel whose
/// *receiver* travels in the message
fn mk2(seq: u32, big: bool, attach: bool) -> (Msg, Option<IpcSender<u32>>) {
    let m = OsIpcSender::get_max_fragment_size();
    let len = if big { if m == usize::MAX { 10000 } else { 2 * m + 64 } } else { 48 };
    let d = payload(0, seq, len);
    if attach {
        let (t, r) = ipc::channel::<u32>().unwrap();
        drop(r);
        let (t2, r2) = ipc::channel::<u32>().unwrap();
        ((d, Some(t), Some(IpcSharedMemory::from_bytes(&[seq as u8; 700])), Some(r2)), Some(t2))
    } else {
        ((d, None, None, None), None)
    }
}

fn mk(seq: u32, big: bool, attach: bool) -> Msg {
    mk2(seq, big, attach).0
}

fn body(c: &Case) -> Result<(), String> {
    unsafe {
        libc::signal(libc::SIGPIPE, libc::SIG_DFL);
    }
    let (tx, rx) = ipc::channel::<Msg>().map_err(|e| e.to_string())?;
    let (ctx, crx) = ipc::channel::<IpcReceiver<Msg>>().map_err(|e| e.to_string())?;
    let mut rx = Some(rx);
    let mut crx = Some(crx);
    let mut unpacked: Option<IpcReceiver<Msg>> = None;
    let mut proc: Option<(i32, i32)> = None;
    match c.held {
        Held::Direct => {
            if c.who == Who::Proc {
                // a forked child becomes the only holder of the receiver; it exits when told
                unsafe {
                    let mut p2c = [0i32; 2];
                    let mut c2p = [0i32; 2];
                    libc::pipe(p2c.as_mut_ptr());
                    libc::pipe(c2p.as_mut_ptr());
                    let pid = libc::fork();
                    if pid == 0 {
                        interpose::after_fork_in_child();
                        libc::close(p2c[1]);
                        drop(tx);
                        drop(ctx);
                        drop(crx.take());
                        let r = [1u8];
                        libc::write(c2p[1], r.as_ptr() as *const _, 1);
                        let mut b = [0u8];
                        libc::read(p2c[0], b.as_mut_ptr() as *mut _, 1);
                        libc::_exit(0);
                    }
                    libc::close(p2c[0]);
                    libc::close(c2p[1]);
                    let mut b = [0u8];
                    libc::read(c2p[0], b.as_mut_ptr() as *mut _, 1);
                    libc::close(c2p[0]);
                    proc = Some((pid, p2c[1]));
                }
                rx = None;
            }
        },
        Held::CarrierDropped | Held::TransitUnpacked => {
            ctx.send(rx.take().unwrap()).map_err(|e| e.to_string())?;
        },
    }
    let mut results = Vec::new();
    for i in 0..=c.stream.len() {
        if i == c.drop_at {
            match c.held {
                Held::Direct => match c.who {
                    Who::Same => drop(rx.take()),
                    Who::Thread => {
                        let r = rx.take();
                        std::thread::spawn(move || drop(r)).join().map_err(|_| "dropper panicked".to_string())?;
                    },
                    Who::Proc => unsafe {
                        let (pid, w) = proc.take().unwrap();
                        libc::close(w);
                        let mut st = 0;
                        libc::waitpid(pid, &mut st, 0);
                    },
                },
                Held::CarrierDropped => match c.who {
                    Who::Thread => {
                        let r = crx.take();
                        std::thread::spawn(move || drop(r)).join().map_err(|_| "dropper panicked".to_string())?;
                    },
                    _ => drop(crx.take()),
                },
                Held::TransitUnpacked => {
                    let r = crx.as_ref().unwrap().recv().map_err(|e| format!("unpacking the receiver in transit: {:?}", e))?;
                    unpacked = Some(r);
                },
            }
        }
        if i == c.stream.len() {
            break;
        }
        let (big, attach) = c.stream[i];
        let (m, rx_owner) = mk2(i as u32, big, attach);
        let r = tx.send(m);
        results.push(r.is_ok());
        if let (Err(_), Some(t2)) = (&r, &rx_owner) {
            // the receiver attached to the failed send was given away and delivered to nobody:
            // it no longer exists anywhere, so sending to it must fail too
            if t2.send(1).is_ok() && t2.send(2).is_ok() {
                return Err(format!("send #{} failed, yet the receiver that was attached to it is still alive somewhere: sends to its channel keep succeeding", i));
            }
        }
        let after_drop = i >= c.drop_at && c.held != Held::TransitUnpacked;
        if after_drop && r.is_ok() {
            return Err(format!("send #{} ({}{}) was issued after the receiving end had vanished and reported success", i, if big { "3-packet" } else { "small" }, if attach { ", with attachments" } else { "" }));
        }
        if !after_drop && r.is_err() {
            return Err(format!("send #{} to a receiving end that still exists ({:?}) failed: {:?}", i, c.held, r.err()));
        }
    }
    obs(format!("{:?}", results));
    if c.held == Held::TransitUnpacked {
        let r = unpacked.ok_or("receiver never unpacked")?;
        for i in 0..c.stream.len() {
            let (d, s, reg, _rx2) = r.recv().map_err(|e| format!("message #{} sent while the receiver was in transit was not delivered after unpacking: {:?}", i, e))?;
            let (_, seq) = validate(&d)?;
            if seq != i as u32 {
                return Err(format!("after unpacking, message #{} arrived where #{} was expected", seq, i));
            }
            if c.stream[i].1 != (s.is_some() && reg.is_some()) {
                return Err(format!("message #{}: attachments wrong after transit", i));
            }
        }
    }
    Ok(())
}

fn cfg_of(_: &Case) -> Cfg {
    Cfg { sched: true, fake_sndbuf: Some(4608), ..Default::default() }
}

pub fn cases(tier: Tier) -> Vec<Case> {
    let n = if tier.is_quick() { 3 } else { 5 };
    let kinds = [(false, false), (true, false), (false, true), (true, true)];
    let mut streams: Vec<Vec<(bool, bool)>> = vec![];
    let mut cur: Vec<Vec<(bool, bool)>> = vec![vec![]];
    for _ in 0..n {
        let mut nx = Vec::new();
        for p in &cur {
            for k in kinds {
                let mut q = p.clone();
                q.push(k);
                nx.push(q);
            }
        }
        streams.extend(nx.iter().cloned());
        cur = nx;
    }
    let mut v = Vec::new();
    for s in streams {
        for drop_at in 0..=s.len() {
            for held in [Held::Direct, Held::CarrierDropped, Held::TransitUnpacked] {
                for who in [Who::Same, Who::Thread, Who::Proc] {
                    if held != Held::Direct && who == Who::Proc {
                        continue;
                    }
                    if held == Held::TransitUnpacked && who != Who::Same {
                        continue;
                    }
                    if tier.is_quick() && s.len() == 3 && who == Who::Thread {
                        continue;
                    }
                    v.push(Case { stream: s.clone(), drop_at, who, held });
                }
            }
        }
    }
    v
}

// --- a receiver in transit inside a message whose sender crashes part-way ----------------------

/// The only handle of receiver R travels in a (1- or 3-packet) message whose sending process is
/// killed before its k-th transport call. If the message never completes, R exists nowhere once
/// the carrier's owner has consumed (and discarded) what arrived: sends to R must then fail. If it
/// completes, R is in transit: sends succeed and are delivered after unpacking.
#[derive(Clone, Debug, Serialize, Deserialize, PartialEq, Eq, Hash)]
pub struct CrashCase {
    pub big: bool,
    pub crash_k: usize,
    /// the carrier is watched through a receiver set instead of recv()
    pub select: bool,
}

fn crash_body(c: &CrashCase) -> Result<(), String> {
    unsafe {
        libc::signal(libc::SIGPIPE, libc::SIG_DFL);
    }
    let (t2, r2) = ipc::channel::<u32>().map_err(|e| e.to_string())?;
    let (ctx, crx) = ipc::channel::<(Vec<u8>, IpcReceiver<u32>)>().map_err(|e| e.to_string())?;
    let m = OsIpcSender::get_max_fragment_size();
    let len = if c.big { 2 * m + 64 } else { 48 };
    unsafe {
        let pid = libc::fork();
        if pid == 0 {
            interpose::after_fork_in_child();
            drop(crx);
            drop(t2);
            interpose::set_crash_at(Some(c.crash_k));
            interpose::arm();
            let _ = ctx.send((payload(0, 1, len), r2));
            interpose::die_now();
        }
        let mut st = 0;
        libc::waitpid(pid, &mut st, 0);
        if !(libc::WIFSIGNALED(st) && libc::WTERMSIG(st) == libc::SIGKILL) {
            return Err(format!("MACHINERY: the crashing sender ended with status {:#x} instead of SIGKILL", st));
        }
    }
    drop(r2);
    drop(ctx);
    let early = t2.send(7);
    let got: Result<(Vec<u8>, IpcReceiver<u32>), String> = if c.select {
        let mut set = ipc::IpcReceiverSet::new().map_err(|e| e.to_string())?;
        set.add(crx).map_err(|e| e.to_string())?;
        let mut res = Err("closed".to_string());
        for ev in set.select().map_err(|e| format!("select: {:?}", e))? {
            if let ipc::IpcSelectionResult::MessageReceived(_, msg) = ev {
                res = msg.to().map_err(|e| format!("{:?}", e));
            }
        }
        res
    } else {
        crx.recv().map_err(|e| format!("{:?}", e))
    };
    match got {
        Ok((d, r)) => {
            validate(&d)?;
            early.map_err(|e| format!("the carrying message arrived complete, yet a send to the receiver in transit inside it had failed: {:?}", e))?;
            let v = r.recv().map_err(|e| format!("a send made while the receiver was in transit was not delivered after unpacking: {:?}", e))?;
            if v != 7 {
                return Err(format!("after unpacking, {} arrived where 7 was sent", v));
            }
            obs("complete".to_string());
        },
        Err(e) => {
            if c.crash_k == 0 && early.is_ok() {
                return Err("the only process holding the receiver died before sending anything, yet a send to it reported success".into());
            }
            // the interrupted message was consumed and discarded: the receiver in it is gone
            for (i, big) in [false, true, false].iter().enumerate() {
                let r = if *big { t2.send(9) } else { t2.send(8) };
                if r.is_ok() {
                    return Err(format!("the message carrying the receiver was interrupted by its sender's crash and discarded ({}), so the receiver exists nowhere, yet send #{} to it reported success", e, i));
                }
            }
            obs(format!("interrupted early_ok={}", early.is_ok()));
        },
    }
    Ok(())
}

/// The only handle of receiver R travels in a message that arrives complete but cannot be
/// decoded (the field before R is not valid for the type expected on the receiving side). The
/// program never gets R, so after the failed receive R exists nowhere and sends to it must fail.
fn undecodable_body(c: &(bool, bool)) -> Result<(), String> {
    let (big, via_try) = *c;
    unsafe {
        libc::signal(libc::SIGPIPE, libc::SIG_DFL);
    }
    let (t2, r2) = ipc::channel::<u32>().map_err(|e| e.to_string())?;
    let (ctx, crx) = ipc::channel::<(Vec<u8>, IpcReceiver<u32>)>().map_err(|e| e.to_string())?;
    let m = OsIpcSender::get_max_fragment_size();
    let len = if big { if m == usize::MAX { 10000 } else { 2 * m + 64 } } else { 48 };
    ctx.send((vec![0xffu8; len], r2)).map_err(|e| e.to_string())?;
    t2.send(7).map_err(|e| format!("send to a receiver in transit failed: {:?}", e))?;
    let crx: IpcReceiver<(String, IpcReceiver<u32>)> = crx.to_opaque().to();
    let r = if via_try { crx.try_recv().map_err(|e| format!("{:?}", e)) } else { crx.recv().map_err(|e| format!("{:?}", e)) };
    match r {
        Ok(_) => return Err("MACHINERY: bytes that are not UTF-8 decoded as a String".into()),
        Err(e) => obs(format!("decode error: {}", &e[..e.len().min(40)])),
    }
    for i in 0..2 {
        if t2.send(8 + i).is_ok() {
            return Err(format!("the message carrying the receiver could not be decoded and was discarded, so the receiver exists nowhere, yet send #{} to it reported success", i));
        }
    }
    Ok(())
}

/// A receiver serialised *by reference*: the handle it was sent from stays alive in the sending
/// program as an empty shell. The receiving end exists only where it was delivered; once that is
/// dropped it exists nowhere and sends must fail.
struct Husk(std::rc::Rc<IpcReceiver<u32>>);
impl Serialize for Husk {
    fn serialize<S: serde::Serializer>(&self, s: S) -> Result<S::Ok, S::Error> {
        (*self.0).serialize(s)
    }
}
impl<'de> Deserialize<'de> for Husk {
    fn deserialize<D: serde::Deserializer<'de>>(d: D) -> Result<Self, D::Error> {
        Ok(Husk(std::rc::Rc::new(IpcReceiver::<u32>::deserialize(d)?)))
    }
}

fn husk_body(other_thread: &bool) -> Result<(), String> {
    unsafe {
        libc::signal(libc::SIGPIPE, libc::SIG_DFL);
    }
    let (t2, r2) = ipc::channel::<u32>().map_err(|e| e.to_string())?;
    let (ctx, crx) = ipc::channel::<Husk>().map_err(|e| e.to_string())?;
    let shell = std::rc::Rc::new(r2);
    ctx.send(Husk(shell.clone())).map_err(|e| e.to_string())?;
    t2.send(1).map_err(|e| format!("send to a receiver in transit failed: {:?}", e))?;
    let got = crx.recv().map_err(|e| format!("carrier: {:?}", e))?;
    let real = std::rc::Rc::try_unwrap(got.0).map_err(|_| "rc".to_string())?;
    match real.recv() {
        Ok(1) => {},
        other => return Err(format!("the send made while the receiver was in transit: {:?}", other)),
    }
    if *other_thread {
        std::thread::spawn(move || drop(real)).join().map_err(|_| "dropper panicked".to_string())?;
    } else {
        drop(real);
    }
    for i in 0..2 {
        if t2.send(2 + i).is_ok() {
            return Err(format!("the delivered receiver was dropped (the handle it was sent from is an empty shell), yet send #{} reported success", i));
        }
    }
    drop(shell);
    Ok(())
}

pub fn crash_cases(_tier: Tier) -> Vec<CrashCase> {
    let mut v = Vec::new();
    for big in [false, true] {
        for k in 0..=(if big { 9 } else { 4 }) {
            for select in [false, true] {
                v.push(CrashCase { big, crash_k: k, select });
            }
        }
    }
    v
}

// --- E1: the drop races the stream --------------------------------------------------------------

#[derive(Clone, Debug, Serialize, Deserialize)]
pub struct Race {
    pub stream: Vec<(bool, bool)>,
    pub carrier: bool,
}

fn race_body(r: &Race) -> Result<(), String> {
    unsafe {
        libc::signal(libc::SIGPIPE, libc::SIG_DFL);
    }
    let (tx, rx) = ipc::channel::<Msg>().map_err(|e| e.to_string())?;
    let (ctx, crx) = ipc::channel::<IpcReceiver<Msg>>().map_err(|e| e.to_string())?;
    let victim: Box<dyn Send> = if r.carrier {
        ctx.send(rx).map_err(|e| e.to_string())?;
        Box::new(crx)
    } else {
        drop(crx);
        Box::new(rx)
    };
    let dropper = std::thread::spawn(move || {
        let b = CLOCK.fetch_add(1, Ordering::SeqCst);
        drop(victim);
        let e = CLOCK.fetch_add(1, Ordering::SeqCst);
        (b, e)
    });
    let mut log = Vec::new();
    for (i, (big, attach)) in r.stream.iter().enumerate() {
        e1::inproc_point();
        let b = CLOCK.fetch_add(1, Ordering::SeqCst);
        let res = tx.send(mk(i as u32, *big, *attach));
        let e = CLOCK.fetch_add(1, Ordering::SeqCst);
        log.push((b, e, res.is_ok()));
    }
    let (db, de) = dropper.join().map_err(|_| "dropper panicked".to_string())?;
    obs(format!("{:?}", log.iter().map(|l| l.2).collect::<Vec<_>>()));
    for (i, (b, e, ok)) in log.iter().enumerate() {
        if *b > de && *ok {
            return Err(format!("send #{} began after the receiver's drop had completed and reported success", i));
        }
        if *e < db && !*ok {
            return Err(format!("send #{} returned before the drop began and failed", i));
        }
    }
    Ok(())
}

pub fn scenarios(tier: Tier) -> Vec<Scenario> {
    let mut v = Vec::new();
    let streams: Vec<Vec<(bool, bool)>> = if tier.is_quick() {
        vec![vec![(false, false), (true, false)], vec![(true, true), (false, false)]]
    } else {
        vec![
            vec![(false, false), (true, false)],
            vec![(true, true), (false, false)],
            vec![(true, false), (true, false), (false, true)],
            vec![(false, true), (false, false), (true, true)],
        ]
    };
    for s in streams {
        for carrier in [false, true] {
            let r = Race { stream: s.clone(), carrier };
            let name = format!("{:?}", r);
            let mut cfg = sched_cfg();
            cfg.yield_alts = cfg!(feature = "inproc");
            v.push(Scenario::new(name, cfg, if tier.is_quick() { 3 } else { 5 }, move || race_body(&r)));
        }
    }
    // the receiver vanishes while a multi-packet send is *waiting for it*: with kernel-enforced
    // small buffers the sender blocks on a follow-up fragment until the receiver reads; once the
    // receiver is gone that wait has to end with an error
    if !cfg!(feature = "inproc") {
        for carrier in [false, true] {
            for stream in [vec![(true, false)], vec![(false, false), (true, true)]] {
                let r = Race { stream, carrier };
                let name = format!("{:?} with kernel-enforced 4608-byte buffers (the sender has to wait for the receiver)", r);
                let cfg = Cfg { sched: true, fake_sndbuf: None, real_sndbuf: Some(4608), ..Default::default() };
                v.push(Scenario::new(name, cfg, if tier.is_quick() { 2 } else { 3 }, move || race_body(&r)));
            }
        }
    }
    v
}

pub fn run(tier: Tier, part_only: bool) -> i32 {
    super::run_with_inproc("C09", tier, part_only, "exploration", &run_all)
}

fn run_all(rep: &mut Report, tier: Tier) {
    let inproc = cfg!(feature = "inproc");
    let mut cs = cases(tier);
    if inproc {
        // in-process channels do not cross fork(): no forked holder, no crashing sender process
        cs.retain(|c| c.who != Who::Proc);
    }
    let mut n = 0u64;
    let mut distinct: HashSet<Case> = HashSet::new();
    let mut fails = Vec::new();
    sweep(&cs, 60.0, &cfg_of, &body, &mut |_, c, out| {
        n += 1;
        match super::describe(out) {
            Ok(_) => {
                if c.drop_at < c.stream.len() {
                    distinct.insert(c.clone());
                }
            },
            Err(e) if e.starts_with("MACHINERY") => rep.machinery(e),
            Err(e) => fails.push((c.clone(), e)),
        }
    });
    for (c, e) in fails {
        rep.fail(&format!("{} :: {:?}", e, c), json!({"engine": "E2", "case": c}));
    }
    let ccs = if inproc { Vec::new() } else { crash_cases(tier) };
    let mut couts: HashSet<String> = HashSet::new();
    let mut cfails = Vec::new();
    sweep(&ccs, 60.0, &|_| Cfg { sched: true, fake_sndbuf: Some(4608), ..Default::default() }, &crash_body, &mut |_, c, out| {
        n += 1;
        match super::describe(out) {
            Ok(o) => {
                couts.insert(format!("{}/{}/{}", c.big, c.select, o));
            },
            Err(e) if e.starts_with("MACHINERY") => rep.machinery(e),
            Err(e) => cfails.push((c.clone(), e)),
        }
    });
    for (c, e) in cfails {
        rep.fail(&format!("{} :: {:?}", e, c), json!({"engine": "E2-crash", "case": c}));
    }
    if !inproc && (!couts.iter().any(|o| o.contains("complete")) || !couts.iter().any(|o| o.contains("interrupted"))) {
        rep.machinery(format!("crash cases did not produce both a complete and an interrupted carrier message: {:?}", couts));
    }
    rep.set("crash_case_outcomes", json!(couts.iter().cloned().collect::<Vec<_>>()));
    let hcs = vec![false, true];
    let mut hfails = Vec::new();
    sweep(&hcs, 60.0, &|_| Cfg { sched: true, fake_sndbuf: Some(4608), ..Default::default() }, &husk_body, &mut |_, c, out| {
        n += 1;
        match super::describe(out) {
            Ok(_) => {},
            Err(e) if e.contains("MACHINERY") => rep.machinery(e),
            Err(e) => hfails.push((*c, e)),
        }
    });
    for (c, e) in hfails {
        rep.fail(&format!("{} :: receiver sent by reference (dropped on another thread={})", e, c), json!({"engine": "E2-husk", "case": c}));
    }
    let dcs: Vec<(bool, bool)> = vec![(false, false), (false, true), (true, false), (true, true)];
    let mut dfails = Vec::new();
    sweep(&dcs, 60.0, &|_| Cfg { sched: true, fake_sndbuf: Some(4608), ..Default::default() }, &undecodable_body, &mut |_, c, out| {
        n += 1;
        match super::describe(out) {
            Ok(_) => {},
            Err(e) if e.contains("MACHINERY") => rep.machinery(e),
            Err(e) => dfails.push((*c, e)),
        }
    });
    for (c, e) in dfails {
        rep.fail(&format!("{} :: undecodable carrier (3-packet={}, try_recv={})", e, c.0, c.1), json!({"engine": "E2-undecodable", "case": c}));
    }
    let scs = scenarios(tier);
    let tot = e1::run_scenarios(rep, &scs, &e1::strict_judge, if tier.is_quick() { 20.0 } else { 1500.0 });
    rep.set("evaluations", json!(n + tot.execs));
    rep.set("distinct_nontrivial", json!(distinct.len() as u64 + couts.len() as u64 + tot.with_switch));
    rep.set("rule", json!("E2 case = (stream of <= 3 (5) sends over {small, 3-packet} x {plain, sender+region attached}, position of the drop 0..=n, dropper in {same thread, other thread, forked process that exits}, receiver held directly / inside an undelivered message of a carrier that is dropped / in transit and unpacked at that position), SIGPIPE reset to its default disposition, single task under the scheduler; E2-crash case = (carrier message of 1 or 3 packets holding the only handle of a receiver, its sending process killed before transport call k = 0..=4 (0..=9), carrier observed with recv or a receiver set): interrupted => sends to the lost receiver fail, complete => the send made in transit is delivered after unpacking; E2-husk: a receiver serialised by reference (the sending handle stays alive as an empty shell), delivered, then dropped => sends fail; E2-undecodable: the carrier message (1 or 3 packets) arrives but fails to decode before the receiver field (recv / try_recv) => sends to the lost receiver fail; E1: one evaluation = one schedule (<= bound deviations) of a dropper task racing the stream; non-trivial = at least one send after the drop"));
    rep.set("exhaustive", json!(!tot.capped));
    rep.sample(json!({"case": cs[cs.len() / 2]}));
    rep.assume("sends racing the drop may return either result; only sends begun after the drop completed must fail, only sends returned before it began must succeed");
}

pub fn replay(tier: Tier, v: &Value) -> i32 {
    let v = if v.get("variant").is_some() { &v["case"] } else { v };
    if v["engine"] == "E2-husk" {
        let c = v["case"].as_bool().unwrap_or(false);
        for r in 0..2 {
            let out = crate::exec::run_one(&Cfg { sched: true, fake_sndbuf: Some(4608), ..Default::default() }, 60.0, &|| husk_body(&c));
            println!("replay round {}: {:?} -> {:?}", r, c, super::describe(&out));
        }
        return 0;
    }
    if v["engine"] == "E2-undecodable" {
        let Ok(c) = serde_json::from_value::<(bool, bool)>(v["case"].clone()) else { return 2 };
        for r in 0..2 {
            let out = crate::exec::run_one(&Cfg { sched: true, fake_sndbuf: Some(4608), ..Default::default() }, 60.0, &|| undecodable_body(&c));
            println!("replay round {}: {:?} -> {:?}", r, c, super::describe(&out));
        }
        return 0;
    }
    if v["engine"] == "E2-crash" {
        let Ok(c) = serde_json::from_value::<CrashCase>(v["case"].clone()) else { return 2 };
        for r in 0..2 {
            let out = crate::exec::run_one(&Cfg { sched: true, fake_sndbuf: Some(4608), ..Default::default() }, 60.0, &|| crash_body(&c));
            println!("replay round {}: {:?} -> {:?}", r, c, super::describe(&out));
        }
        return 0;
    }
    if v["engine"] == "E2" {
        let Ok(c) = serde_json::from_value::<Case>(v["case"].clone()) else { return 2 };
        for r in 0..2 {
            let out = crate::exec::run_one(&cfg_of(&c), 60.0, &|| body(&c));
            println!("replay round {}: {:?} -> {:?}", r, c, super::describe(&out));
        }
        return 0;
    }
    let mut scs = scenarios(tier);
    scs.extend(scenarios(if tier.is_quick() { Tier::Thorough } else { Tier::Quick }));
    e1::replay(&scs, v)
}
