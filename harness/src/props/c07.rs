//! C07 — router: each routed message reaches its handler once, in order; then it is freed.
//! E1: all schedules with <=B deviations of registering / sending / dropping tasks against
//! the real router thread (private RouterProxy per execution).
use super::e1::{self, sched_cfg, Scenario};
use crate::common::{Report, Tier};
use crate::exec::obs;
use ipc_channel::ipc::{self, IpcSender};
use ipc_channel::router::RouterProxy;
use serde::{Deserialize, Serialize};
use serde_json::{json, Value};
use std::sync::{Arc, Mutex};

#[derive(Clone, Copy, Debug, Serialize, Deserialize, PartialEq, Eq)]
pub enum Kind {
    Callback,
    Crossbeam,
}

#[derive(Clone, Debug, Serialize, Deserialize)]
pub struct Route {
    pub kind: Kind,
    /// messages queued before the receiver is registered
    pub pre: u32,
    /// messages sent after registration
    pub post: u32,
    /// which task registers and feeds it (0 = main, 1 = helper thread)
    pub by: u8,
    /// sent as a two-packet message instead of a small one
    pub big: bool,
    /// the callback itself performs a visible operation (user code in handlers does I/O): this
    /// opens scheduling windows inside the router's event loop
    #[serde(default)]
    pub cb_yield: bool,
    /// forwarding route whose consumer has gone away: the crossbeam receiver is dropped right after
    /// registration while messages keep coming; the other routes must not notice
    #[serde(default)]
    pub abandon: bool,
}

#[derive(Clone, Debug, Serialize, Deserialize)]
pub struct P {
    pub routes: Vec<Route>,
}

pub struct Guard {
    route: usize,
    drops: Arc<Mutex<Vec<usize>>>,
    done: crossbeam_channel::Sender<usize>,
}
impl Drop for Guard {
    fn drop(&mut self) {
        self.drops.lock().unwrap().push(self.route);
        let _ = self.done.send(self.route);
    }
}

type Msg = (u32, Vec<u8>);

fn mk(route: usize, seq: u32, big: bool) -> Msg {
    let n = if big { 6000 } else { 3 };
    ((route as u32) * 100 + seq, vec![route as u8; n])
}

fn body(p: &P) -> Result<(), String> {
    let proxy = Arc::new(RouterProxy::new());
    let log: Arc<Mutex<Vec<(usize, u32)>>> = Arc::new(Mutex::new(Vec::new()));
    let drops: Arc<Mutex<Vec<usize>>> = Arc::new(Mutex::new(Vec::new()));
    let (done_tx, done_rx) = crossbeam_channel::unbounded::<usize>();
    // create channels and queue the "pre" messages
    let mut mine = Vec::new();
    let mut theirs = Vec::new();
    for (i, r) in p.routes.iter().enumerate() {
        let (tx, rx) = ipc::channel::<Msg>().map_err(|e| e.to_string())?;
        for s in 0..r.pre {
            tx.send(mk(i, s, r.big)).map_err(|e| format!("pre send: {}", e))?;
        }
        if r.by == 0 {
            mine.push((i, r.clone(), tx, rx));
        } else {
            theirs.push((i, r.clone(), tx, rx));
        }
    }
    // the work of one registering task
    fn work(
        proxy: Arc<RouterProxy>,
        set: Vec<(usize, Route, IpcSender<Msg>, ipc::IpcReceiver<Msg>)>,
        log: Arc<Mutex<Vec<(usize, u32)>>>,
        drops: Arc<Mutex<Vec<usize>>>,
        done: crossbeam_channel::Sender<usize>,
    ) -> Result<Vec<(usize, crossbeam_channel::Receiver<Msg>)>, String> {
        let mut xbs = Vec::new();
        let mut feed = Vec::new();
        for (i, r, tx, rx) in set {
            let r2 = r.clone();
            match r.kind {
                Kind::Callback => {
                    let g = Guard { route: i, drops: drops.clone(), done: done.clone() };
                    let log = log.clone();
                    e1::inproc_point();
                    proxy.add_route(
                        rx.to_opaque(),
                        Box::new(move |m| {
                            let _keep = &g;
                            if r2.cb_yield {
                                crate::sched::vyield();
                            }
                            match m.to::<Msg>() {
                                Ok((v, body)) => {
                                    let ok = body.iter().all(|b| *b == i as u8);
                                    log.lock().unwrap().push((i, if ok { v } else { 999_999 }));
                                },
                                Err(_) => log.lock().unwrap().push((i, 888_888)),
                            }
                        }),
                    );
                },
                Kind::Crossbeam => {
                    e1::inproc_point();
                    let crx = proxy.route_ipc_receiver_to_new_crossbeam_receiver(rx);
                    if !r.abandon {
                        xbs.push((i, crx));
                    }
                },
            }
            feed.push((i, r.clone(), tx));
        }
        for (i, r, tx) in feed {
            for s in 0..r.post {
                e1::inproc_point();
                tx.send(mk(i, r.pre + s, r.big)).map_err(|e| format!("post send on route {}: {}", i, e))?;
            }
            drop(tx);
        }
        Ok(xbs)
    }
    let helper = if theirs.is_empty() {
        None
    } else {
        let (pr, lg, dr, dn) = (proxy.clone(), log.clone(), drops.clone(), done_tx.clone());
        Some(std::thread::spawn(move || work(pr, theirs, lg, dr, dn)))
    };
    let mut xbs = work(proxy.clone(), mine, log.clone(), drops.clone(), done_tx.clone())?;
    if let Some(h) = helper {
        xbs.extend(h.join().map_err(|_| "helper panicked".to_string())??);
    }
    drop(done_tx);
    // wait for every route to be finished: crossbeam routes disconnect, callback routes drop
    let ncb = p.routes.iter().filter(|r| r.kind == Kind::Callback).count();
    let mut forwarded: Vec<(usize, Vec<u32>)> = Vec::new();
    for (i, crx) in xbs {
        let mut v = Vec::new();
        while let Ok((val, body)) = crx.recv() {
            v.push(if body.iter().all(|b| *b == i as u8) { val } else { 999_999 });
        }
        forwarded.push((i, v));
    }
    for _ in 0..ncb {
        done_rx.recv().map_err(|_| "a callback was never dropped".to_string())?;
    }
    // oracle
    let lg = log.lock().unwrap().clone();
    obs(format!("log={:?} fwd={:?}", lg, forwarded));
    for (i, r) in p.routes.iter().enumerate() {
        if r.abandon {
            continue;
        }
        let want: Vec<u32> = (0..r.pre + r.post).map(|s| i as u32 * 100 + s).collect();
        let got: Vec<u32> = match r.kind {
            Kind::Callback => lg.iter().filter(|(ri, _)| *ri == i).map(|(_, v)| *v).collect(),
            Kind::Crossbeam => forwarded.iter().find(|(ri, _)| *ri == i).map(|(_, v)| v.clone()).unwrap_or_default(),
        };
        if got != want {
            return Err(format!("route {} ({:?}): handler saw {:?}, sends were {:?}", i, r.kind, got, want));
        }
        if r.kind == Kind::Callback {
            let nd = drops.lock().unwrap().iter().filter(|d| **d == i).count();
            if nd != 1 {
                return Err(format!("route {}: callback dropped {} times", i, nd));
            }
        }
    }
    let handled_by_cb: usize = lg.len();
    let want_cb: u32 = p.routes.iter().filter(|r| r.kind == Kind::Callback).map(|r| r.pre + r.post).sum();
    if handled_by_cb != want_cb as usize {
        return Err(format!("callbacks ran {} times for {} messages", handled_by_cb, want_cb));
    }
    // leak the proxy: what happens when a router stops is C17's business
    std::mem::forget(proxy);
    Ok(())
}

/// n routes registered in a row while every channel is idle and every sender stays alive; then one
/// message on the last-registered route must reach its callback
fn quiet_burst_body(n: usize) -> Result<(), String> {
    let proxy = Arc::new(RouterProxy::new());
    let (done_tx, done_rx) = crossbeam_channel::unbounded::<(usize, u32)>();
    let mut txs = Vec::new();
    for i in 0..n {
        let (tx, rx) = ipc::channel::<u32>().map_err(|e| e.to_string())?;
        let d = done_tx.clone();
        e1::inproc_point();
        proxy.add_route(
            rx.to_opaque(),
            Box::new(move |m| {
                let _ = d.send((i, m.to::<u32>().unwrap_or(999_999)));
            }),
        );
        txs.push(tx);
    }
    e1::inproc_point();
    txs[n - 1].send(77).map_err(|e| e.to_string())?;
    match done_rx.recv() {
        Ok((i, 77)) if i == n - 1 => {},
        other => return Err(format!("the message on the route registered last was not handled by its callback: {:?}", other)),
    }
    drop(txs);
    std::mem::forget(proxy);
    Ok(())
}

/// two registered routes; while the router is not running, a backlog builds up on the newer route
/// first, then on the older one: one large select batch that is not in id order
fn cross_backlog_body(n: u32) -> Result<(), String> {
    let proxy = Arc::new(RouterProxy::new());
    let log: Arc<Mutex<Vec<(usize, u32)>>> = Arc::new(Mutex::new(Vec::new()));
    let (done_tx, done_rx) = crossbeam_channel::unbounded::<usize>();
    let mut txs = Vec::new();
    for i in 0..2usize {
        let (tx, rx) = ipc::channel::<u32>().map_err(|e| e.to_string())?;
        let g = Guard { route: i, drops: Arc::new(Mutex::new(Vec::new())), done: done_tx.clone() };
        let lg = log.clone();
        e1::inproc_point();
        proxy.add_route(
            rx.to_opaque(),
            Box::new(move |m| {
                let _k = &g;
                lg.lock().unwrap().push((i, m.to::<u32>().unwrap_or(999_999)));
            }),
        );
        txs.push(tx);
    }
    drop(done_tx);
    // let the router register both routes and go back to waiting
    crate::sched::settle();
    for k in 0..n {
        e1::inproc_point();
        txs[1].send(k).map_err(|e| e.to_string())?;
    }
    for k in 0..n {
        e1::inproc_point();
        txs[0].send(k).map_err(|e| e.to_string())?;
    }
    drop(txs);
    for _ in 0..2 {
        done_rx.recv().map_err(|_| "a callback was never dropped".to_string())?;
    }
    let lg = log.lock().unwrap().clone();
    for i in 0..2usize {
        let got: Vec<u32> = lg.iter().filter(|(r, _)| *r == i).map(|(_, v)| *v).collect();
        let want: Vec<u32> = (0..n).collect();
        if got != want {
            return Err(format!("route {}: handler saw {:?} instead of 0..{} in order", i, got, n));
        }
    }
    std::mem::forget(proxy);
    Ok(())
}

/// n tasks register one route each and send two messages on it
fn many_tasks_body(n: usize) -> Result<(), String> {
    let proxy = Arc::new(RouterProxy::new());
    let log: Arc<Mutex<Vec<(usize, u32)>>> = Arc::new(Mutex::new(Vec::new()));
    let (done_tx, done_rx) = crossbeam_channel::unbounded::<usize>();
    let mut hs = Vec::new();
    for i in 0..n {
        let (pr, lg, dn) = (proxy.clone(), log.clone(), done_tx.clone());
        hs.push(std::thread::spawn(move || -> Result<(), String> {
            let (tx, rx) = ipc::channel::<u32>().map_err(|e| e.to_string())?;
            let g = Guard { route: i, drops: Arc::new(Mutex::new(Vec::new())), done: dn };
            e1::inproc_point();
            pr.add_route(
                rx.to_opaque(),
                Box::new(move |m| {
                    let _k = &g;
                    lg.lock().unwrap().push((i, m.to::<u32>().unwrap_or(999_999)));
                }),
            );
            e1::inproc_point();
            tx.send(i as u32 * 10).map_err(|e| e.to_string())?;
            tx.send(i as u32 * 10 + 1).map_err(|e| e.to_string())?;
            Ok(())
        }));
    }
    drop(done_tx);
    for h in hs {
        h.join().map_err(|_| "registering task panicked".to_string())??;
    }
    for _ in 0..n {
        done_rx.recv().map_err(|_| "a callback was never dropped".to_string())?;
    }
    let lg = log.lock().unwrap().clone();
    for i in 0..n {
        let got: Vec<u32> = lg.iter().filter(|(r, _)| *r == i).map(|(_, v)| *v).collect();
        if got != vec![i as u32 * 10, i as u32 * 10 + 1] {
            return Err(format!("route {} of {}: handler saw {:?}", i, n, got));
        }
    }
    std::mem::forget(proxy);
    Ok(())
}

pub fn scenarios(tier: Tier) -> Vec<Scenario> {
    let mut v = Vec::new();
    for n in [9usize, 12, 33] {
        let mut cfg = sched_cfg();
        cfg.post_points = true;
        v.push(Scenario::new(format!("quiet burst of {} routes", n), cfg, if tier.is_quick() || n > 12 { 0 } else { 1 }, move || quiet_burst_body(n)));
    }
    {
        // a long backlog on one route, and six registering tasks (few deviations)
        let mut cfg = sched_cfg();
        cfg.post_points = true;
        cfg.strict_deviations = true;
        let p = P { routes: vec![Route { kind: Kind::Callback, pre: 40, post: 10, by: 0, big: false, cb_yield: false, abandon: false }, Route { kind: Kind::Crossbeam, pre: 0, post: 50, by: 0, big: false, cb_yield: false, abandon: false }] };
        v.push(Scenario::new("backlog 40+10 / 0+50 (every non-default choice counts)", cfg.clone(), if tier.is_quick() { 1 } else { 2 }, move || body(&p)));
        v.push(Scenario::new("six registering tasks (every non-default choice counts)", cfg.clone(), if tier.is_quick() { 1 } else { 2 }, move || many_tasks_body(6)));
        v.push(Scenario::new("backlog on the newer route first, then on the older one (12 + 12)", cfg.clone(), if tier.is_quick() { 1 } else { 2 }, move || cross_backlog_body(12)));
        v.push(Scenario::new("backlog on the newer route first, then on the older one (30 + 30)", cfg, 0, move || cross_backlog_body(30)));
    }
    let mut add = |routes: Vec<Route>, bound: u32| {
        let p = P { routes };
        let name = format!("{:?}", p.routes.iter().map(|r| format!("{:?}/pre{}/post{}/by{}{}{}{}", r.kind, r.pre, r.post, r.by, if r.big { "/big" } else { "" }, if r.cb_yield { "/cb-yields" } else { "" }, if r.abandon { "/abandoned" } else { "" })).collect::<Vec<_>>());
        let mut cfg = sched_cfg();
        cfg.post_points = true;
        v.push(Scenario::new(name, cfg, bound, move || body(&p)));
    };
    use Kind::*;
    let r = |kind, pre, post, by, big| Route { kind, pre, post, by, big, cb_yield: false, abandon: false };
    let rab = |pre, post, by| Route { kind: Crossbeam, pre, post, by, big: false, cb_yield: false, abandon: true };
    let ry = |kind, pre, post, by| Route { kind, pre, post, by, big: false, cb_yield: true, abandon: false };
    // a forwarding route whose consumer is gone, next to live routes
    add(vec![rab(1, 1, 0), r(Callback, 1, 1, 0, false)], 2);
    add(vec![rab(0, 2, 1), r(Crossbeam, 1, 1, 0, false)], 2);
    if tier.is_quick() {
        add(vec![r(Callback, 1, 1, 0, false)], 2);
        add(vec![r(Crossbeam, 0, 2, 0, false)], 2);
        add(vec![r(Callback, 0, 1, 0, false), r(Crossbeam, 1, 0, 1, false)], 2);
        add(vec![r(Callback, 1, 0, 1, true), r(Callback, 0, 1, 0, false)], 1);
        add(vec![r(Callback, 0, 0, 0, false), r(Crossbeam, 0, 0, 1, false)], 2);
        // a handler that does I/O while other registrations arrive
        add(vec![ry(Callback, 0, 1, 0), r(Callback, 0, 0, 0, false), r(Callback, 1, 0, 1, false)], 2);
        add(vec![ry(Callback, 1, 0, 0), r(Crossbeam, 0, 1, 1, false)], 2);
    } else {
        add(vec![ry(Callback, 0, 1, 0), r(Callback, 0, 0, 0, false), r(Callback, 1, 0, 1, false)], 3);
        add(vec![ry(Callback, 1, 0, 0), r(Crossbeam, 0, 1, 1, false)], 3);
        add(vec![ry(Callback, 1, 1, 0), ry(Callback, 0, 1, 1), r(Crossbeam, 0, 0, 1, false)], 2);
        for kind in [Callback, Crossbeam] {
            for pre in 0..=2 {
                for post in 0..=2 {
                    add(vec![r(kind, pre, post, 0, false)], 3);
                    add(vec![r(kind, pre, post, 1, pre + post == 1)], 2);
                }
            }
        }
        for k1 in [Callback, Crossbeam] {
            for k2 in [Callback, Crossbeam] {
                for (pre, post) in [(0, 1), (1, 0), (1, 1), (0, 2)] {
                    add(vec![r(k1, pre, post, 0, false), r(k2, post, pre, 1, false)], if pre + post == 1 { 3 } else { 2 });
                }
            }
        }
        add(vec![r(Callback, 1, 1, 0, false), r(Crossbeam, 0, 1, 1, false), r(Callback, 0, 1, 1, true)], 1);
    }
    for sc in v.iter_mut() {
        // in-process build: tasks that block by spin-then-park may also keep the processor
        sc.cfg.yield_alts = cfg!(feature = "inproc") && !sc.cfg.strict_deviations;
    }
    v
}

pub fn run(tier: Tier, part_only: bool) -> i32 {
    super::run_with_inproc("C07", tier, part_only, "model_checking", &run_all)
}

fn run_all(rep: &mut Report, tier: Tier) {
    let scs = scenarios(tier);
    let tot = e1::run_scenarios(rep, &scs, &e1::strict_judge, if tier.is_quick() { 40.0 } else { 3000.0 });
    // a sender that dies mid-message on a routed channel: the callback is dropped exactly when no
    // sender survives, a survivor's messages still reach it (C12's crash machinery, router observer)
    let ncrash = super::c12::run_for(rep, &[super::c12::Watch::Router], "sender crash seen through a router callback");
    rep.set("deviation_bound_min", json!(tot.min_bound));
    rep.set("deviation_bound_max", json!(tot.max_bound));
    rep.set("evaluations", json!(tot.execs + ncrash));
    rep.set("distinct_nontrivial", json!(tot.with_switch + ncrash));
    rep.set("rule", json!("one evaluation = one complete schedule (<= bound deviations) of registering/sending/dropping tasks against the real router thread; routes: callback with drop guard or crossbeam forwarding, 0-2 messages queued before registration, 0-2 after, registered from the main task or a helper, callbacks that themselves perform a visible operation, a forwarding route whose crossbeam receiver was dropped; plus quiet bursts of 9/12/33 registrations, a 40+10 / 0+50 backlog, a backlog on the newer route first then the older one, and six registering tasks (wide scenarios count every non-default choice as a deviation); schedules are distinct by construction (the depth-first search never repeats a choice sequence) and a schedule counts as non-trivial when it contains at least one context switch; enumerated cases are distinct by construction"));
    rep.assume("router queue operations are paired with a system call inside one critical section, so system-call/futex granularity covers its interleavings");
    rep.assume("the proxy is leaked at the end of each execution (stopping a router is C17)");
}

pub fn replay(tier: Tier, v: &Value) -> i32 {
    let v = if v.get("variant").is_some() { &v["case"] } else { v };
    if v["engine"] == "crash-case" {
        return super::c12::replay(&v["case"]);
    }
    let mut scs = scenarios(tier);
    scs.extend(scenarios(if tier.is_quick() { Tier::Thorough } else { Tier::Quick }));
    e1::replay(&scs, v)
}
