//! C08 — one-shot server bootstrap connects two parties and leaves nothing behind.
//! E1: server task (new -> accept) and client task (connect -> send 1..3 messages -> drop) in
//! every order the scheduler can produce (<=B deviations), also with a kernel-enforced small
//! send buffer so that the client blocks until the server drains; E2: client as a forked
//! process that has already exited, servers dropped unused, many servers alive at once.
use super::c02::{payload, validate, Sz};
use super::e1::{self, Scenario};
use super::sweep;
use crate::common::{Report, Tier};
use crate::exec::obs;
use crate::interpose::{self, Cfg};
use ipc_channel::ipc::{self, IpcError, IpcOneShotServer, IpcReceiver, IpcSender, IpcSharedMemory};
use serde::{Deserialize, Serialize};
use serde_json::{json, Value};
use std::collections::HashSet;

type Msg = (Vec<u8>, Option<IpcSender<u32>>, Option<IpcSharedMemory>);

#[derive(Clone, Debug, Serialize, Deserialize, PartialEq, Eq, Hash)]
pub struct P {
    pub msgs: Vec<Sz>,
    /// index of the message that carries a sender and a region
    pub attach_at: Option<usize>,
    pub real_small_buffer: bool,
}

fn tmp_root() -> String {
    format!("/tmp/vcheck-c08-{}", std::process::id())
}

fn listing(dir: &str) -> Vec<String> {
    let mut v: Vec<String> = std::fs::read_dir(dir).map(|rd| rd.flatten().map(|e| e.file_name().to_string_lossy().to_string()).collect()).unwrap_or_default();
    v.sort();
    v
}

/// every non-directory entry below `dir` (rendezvous sockets), however the library lays them out
fn files_below(dir: &str) -> Vec<String> {
    let mut out = Vec::new();
    let mut stack = vec![std::path::PathBuf::from(dir)];
    while let Some(d) = stack.pop() {
        if let Ok(rd) = std::fs::read_dir(&d) {
            for e in rd.flatten() {
                let p = e.path();
                match e.file_type() {
                    Ok(t) if t.is_dir() => stack.push(p),
                    _ => out.push(p.to_string_lossy().to_string()),
                }
            }
        }
    }
    out.sort();
    out
}

fn mk(i: usize, sz: Sz, attach: bool, keep: &mut Vec<IpcReceiver<u32>>) -> Msg {
    let d = payload(0, i as u32, sz.len());
    if attach {
        let (t, r) = ipc::channel::<u32>().unwrap();
        keep.push(r);
        (d, Some(t), Some(IpcSharedMemory::from_bytes(&[i as u8; 999])))
    } else {
        (d, None, None)
    }
}

fn check_msg(i: usize, m: Msg, attach: bool) -> Result<Option<IpcSender<u32>>, String> {
    let (d, s, r) = m;
    let (_, seq) = validate(&d)?;
    if seq != i as u32 {
        return Err(format!("message #{} arrived where #{} was expected", seq, i));
    }
    if attach {
        let r = r.ok_or("region attachment missing")?;
        if &*r != &[i as u8; 999][..] {
            return Err("region contents differ".into());
        }
        return Ok(Some(s.ok_or("sender attachment missing")?));
    }
    if s.is_some() || r.is_some() {
        return Err("attachments out of nowhere".into());
    }
    Ok(None)
}

fn after_accept_clean(root: &str, before: usize) -> Result<(), String> {
    let (l, snap) = interpose::harness(|| (listing(root), interpose::snapshot()));
    if !l.is_empty() {
        return Err(format!("[left-behind] filesystem entries remain after accept returned / the server was dropped: {:?}", l));
    }
    let listeners: Vec<_> = snap.open_fds.iter().filter(|(_, k)| k.starts_with("Listener")).collect();
    if !listeners.is_empty() {
        return Err(format!("[left-behind] the rendezvous (listening) descriptor is still open: {:?}", listeners));
    }
    let _ = before;
    Ok(())
}

fn body(p: &P) -> Result<(), String> {
    let root = tmp_root();
    interpose::harness(|| {
        // (process ids are recycled: make sure nothing of an earlier, aborted execution is left)
        let _ = std::fs::remove_dir_all(&root);
        let _ = std::fs::create_dir_all(&root);
    });
    std::env::set_var("TMPDIR", &root);
    let (server, name) = IpcOneShotServer::<Msg>::new().map_err(|e| format!("server new: {}", e))?;
    let pp = p.clone();
    let client = std::thread::spawn(move || -> Result<Vec<IpcReceiver<u32>>, String> {
        e1::inproc_point();
        let tx = IpcSender::<Msg>::connect(name).map_err(|e| format!("connect failed: {}", e))?;
        let mut keep = Vec::new();
        for (i, sz) in pp.msgs.iter().enumerate() {
            let m = mk(i, *sz, pp.attach_at == Some(i), &mut keep);
            e1::inproc_point();
            tx.send(m).map_err(|e| format!("client send #{} failed: {}", i, e))?;
        }
        drop(tx);
        Ok(keep)
    });
    e1::inproc_point();
    let (rx, first) = server.accept().map_err(|e| format!("accept failed: {}", e))?;
    after_accept_clean(&root, 0)?;
    let mut got_sender = check_msg(0, first, p.attach_at == Some(0))?;
    for i in 1..p.msgs.len() {
        let m = rx.recv().map_err(|e| format!("message #{} not delivered after accept: {:?}", i, e))?;
        if let Some(s) = check_msg(i, m, p.attach_at == Some(i))? {
            got_sender = Some(s);
        }
    }
    match rx.recv() {
        Err(IpcError::Disconnected) => {},
        other => return Err(format!("after the client's last message: {:?} instead of disconnected", other.map(|_| "a message"))),
    }
    let keep = client.join().map_err(|_| "client panicked".to_string())??;
    if let Some(s) = got_sender {
        s.send(4711).map_err(|e| format!("attached sender unusable: {}", e))?;
        match keep[0].try_recv() {
            Ok(4711) => {},
            other => return Err(format!("nonce through attached sender: {:?}", other)),
        }
    }
    interpose::harness(|| {
        let _ = std::fs::remove_dir_all(&root);
    });
    obs("ok");
    Ok(())
}

/// Two-way bootstrap: the client connects to server A, then creates its own server B and sends
/// B's name as its first message; A's owner accepts, connects to B and sends; the client accepts
/// on B. Two rendezvous are alive at once and each side's first message depends on the other one.
fn two_way_body() -> Result<(), String> {
    let root = tmp_root();
    interpose::harness(|| {
        let _ = std::fs::remove_dir_all(&root);
        let _ = std::fs::create_dir_all(&root);
    });
    std::env::set_var("TMPDIR", &root);
    let (server_a, name_a) = IpcOneShotServer::<String>::new().map_err(|e| format!("server A new: {}", e))?;
    let client = std::thread::spawn(move || -> Result<(), String> {
        e1::inproc_point();
        let to_a = IpcSender::<String>::connect(name_a).map_err(|e| format!("connect to A failed: {}", e))?;
        e1::inproc_point();
        let (server_b, name_b) = IpcOneShotServer::<u32>::new().map_err(|e| format!("server B new: {}", e))?;
        e1::inproc_point();
        to_a.send(name_b).map_err(|e| format!("first message to A failed: {}", e))?;
        e1::inproc_point();
        let (rx_b, first) = server_b.accept().map_err(|e| format!("accept on B failed: {}", e))?;
        if first != 1 {
            return Err(format!("B's first message is {}", first));
        }
        match rx_b.recv() {
            Ok(2) => Ok(()),
            other => Err(format!("B's second message: {:?}", other)),
        }
    });
    e1::inproc_point();
    let (rx_a, name_b) = server_a.accept().map_err(|e| format!("accept on A failed: {}", e))?;
    e1::inproc_point();
    let to_b = IpcSender::<u32>::connect(name_b).map_err(|e| format!("connect to B failed: {}", e))?;
    to_b.send(1).map_err(|e| format!("first message to B failed: {}", e))?;
    to_b.send(2).map_err(|e| format!("second message to B failed: {}", e))?;
    client.join().map_err(|_| "client panicked".to_string())??;
    match rx_a.recv() {
        Err(IpcError::Disconnected) => {},
        other => return Err(format!("after the client's only message: {:?} instead of disconnected", other.map(|_| "a message"))),
    }
    after_accept_clean(&root, 0)?;
    interpose::harness(|| {
        let _ = std::fs::remove_dir_all(&root);
    });
    obs("ok");
    Ok(())
}

pub fn scenarios(tier: Tier) -> Vec<Scenario> {
    use Sz::*;
    let mut v = Vec::new();
    v.push(Scenario::new(
        "two-way bootstrap (the client's first message names its own server)",
        Cfg { sched: true, fake_sndbuf: Some(4608), yield_alts: cfg!(feature = "inproc"), ..Default::default() },
        if tier.is_quick() { 2 } else { 4 },
        two_way_body,
    ));
    let mut add = |p: P, bound: u32| {
        let name = format!("{:?}", p);
        let cfg = Cfg {
            sched: true,
            fake_sndbuf: if p.real_small_buffer { None } else { Some(4608) },
            real_sndbuf: if p.real_small_buffer { Some(4608) } else { None },
            yield_alts: cfg!(feature = "inproc"),
            ..Default::default()
        };
        v.push(Scenario::new(name, cfg, bound, move || body(&p)));
    };
    if tier.is_quick() {
        add(P { msgs: vec![S], attach_at: None, real_small_buffer: false }, 3);
        add(P { msgs: vec![S, L2], attach_at: Some(1), real_small_buffer: false }, 3);
        add(P { msgs: vec![L3, S, S], attach_at: Some(0), real_small_buffer: true }, 2);
        add(P { msgs: vec![S, L3], attach_at: None, real_small_buffer: true }, 3);
        add(P { msgs: vec![L2, One], attach_at: Some(0), real_small_buffer: false }, 2);
        // several first packets on the connected socket itself while the server is not reading
        add(P { msgs: vec![One, S, One], attach_at: Some(2), real_small_buffer: true }, 2);
    } else {
        add(P { msgs: vec![One, S, One], attach_at: Some(2), real_small_buffer: true }, 4);
        add(P { msgs: vec![One, One], attach_at: None, real_small_buffer: true }, 4);
        for msgs in [vec![S], vec![L2], vec![S, S], vec![S, L2], vec![L2, S], vec![L3, S, S], vec![S, L3, One]] {
            for att in [None, Some(0), Some(msgs.len() - 1)] {
                for real in [false, true] {
                    add(P { msgs: msgs.clone(), attach_at: att, real_small_buffer: real }, if msgs.len() <= 1 { 5 } else if msgs.len() <= 2 { 4 } else { 3 });
                }
            }
        }
    }
    v
}

// --- E2 ----------------------------------------------------------------------------------------

#[derive(Clone, Debug, Serialize, Deserialize, PartialEq, Eq, Hash)]
pub enum Case {
    /// a forked client connects, sends n messages and exits before accept is called
    ExitedClient { n: usize, big_every: usize },
    /// like ExitedClient, but the client is a separately exec'ed process
    SpawnedClient { n: usize, big_every: usize },
    /// n servers alive at once: names distinct, every one usable or droppable, nothing left
    ManyServers { n: usize, accept_every: usize },
    DroppedUnused { with_connected_client: bool },
    /// a child exec'ed while a server (and a connected client) is alive must not inherit the rendezvous
    ExecWhileAlive,
}

/// body of the exec'ed client process (`vcheck --oneshot-client <name> <n> <big_every>`)
pub fn client_main(name: &str, n: usize, big_every: usize) -> i32 {
    // same effective packet size as in the server's process, so that "2-packet" means the same
    interpose::activate(&Cfg { fake_sndbuf: Some(4608), ..Default::default() });
    let Ok(tx) = IpcSender::<Msg>::connect(name.to_string()) else { return 5 };
    let mut keep = Vec::new();
    for i in 0..n {
        let sz = if big_every > 0 && i % big_every == big_every - 1 { Sz::L2 } else { Sz::S };
        if tx.send(mk(i, sz, i == 1, &mut keep)).is_err() {
            return 7;
        }
    }
    0
}

fn e2_body(c: &Case) -> Result<(), String> {
    let root = tmp_root();
    interpose::harness(|| {
        // (process ids are recycled: make sure nothing of an earlier, aborted execution is left)
        let _ = std::fs::remove_dir_all(&root);
        let _ = std::fs::create_dir_all(&root);
    });
    std::env::set_var("TMPDIR", &root);
    match c {
        Case::ExitedClient { n, big_every } => {
            let (server, name) = IpcOneShotServer::<Msg>::new().map_err(|e| e.to_string())?;
            unsafe {
                let pid = libc::fork();
                if pid == 0 {
                    interpose::after_fork_in_child();
                    let tx = IpcSender::<Msg>::connect(name).unwrap();
                    let mut keep = Vec::new();
                    for i in 0..*n {
                        let sz = if *big_every > 0 && i % big_every == big_every - 1 { Sz::L2 } else { Sz::S };
                        if tx.send(mk(i, sz, i == 1, &mut keep)).is_err() {
                            libc::_exit(7);
                        }
                    }
                    libc::_exit(0);
                }
                let mut st = 0;
                libc::waitpid(pid, &mut st, 0);
                if !(libc::WIFEXITED(st) && libc::WEXITSTATUS(st) == 0) {
                    return Err(format!("the client process could not connect and send before accept (status {:#x})", st));
                }
            }
            let (rx, first) = server.accept().map_err(|e| format!("accept after the client exited: {}", e))?;
            after_accept_clean(&root, 0)?;
            check_msg(0, first, false)?;
            for i in 1..*n {
                let m = rx.recv().map_err(|e| format!("message #{} of an exited client lost: {:?}", i, e))?;
                check_msg(i, m, i == 1)?;
            }
            match rx.recv() {
                Err(IpcError::Disconnected) => {},
                other => return Err(format!("exited client: {:?} instead of disconnected", other.map(|_| "a message"))),
            }
        },
        Case::SpawnedClient { n, big_every } => {
            let (server, name) = IpcOneShotServer::<Msg>::new().map_err(|e| e.to_string())?;
            let st = interpose::harness(|| {
                std::process::Command::new("/proc/self/exe").args(["--oneshot-client", &name, &n.to_string(), &big_every.to_string()]).status()
            })
            .map_err(|e| format!("cannot spawn the client: {}", e))?;
            if !st.success() {
                return Err(format!("the spawned client could not connect and send before accept ({:?})", st.code()));
            }
            let (rx, first) = server.accept().map_err(|e| format!("accept after the spawned client exited: {}", e))?;
            after_accept_clean(&root, 0)?;
            check_msg(0, first, false)?;
            for i in 1..*n {
                let m = rx.recv().map_err(|e| format!("message #{} of a spawned client lost: {:?}", i, e))?;
                check_msg(i, m, i == 1)?;
            }
            match rx.recv() {
                Err(IpcError::Disconnected) => {},
                other => return Err(format!("spawned client: {:?} instead of disconnected", other.map(|_| "a message"))),
            }
        },
        Case::ManyServers { n, accept_every } => {
            let mut servers = Vec::new();
            let mut names = HashSet::new();
            for _ in 0..*n {
                let (s, name) = IpcOneShotServer::<Msg>::new().map_err(|e| format!("server new: {}", e))?;
                if !names.insert(name.clone()) {
                    return Err(format!("two live servers share the name {}", name));
                }
                servers.push((s, name));
            }
            let total = servers.len();
            for (i, (s, name)) in servers.into_iter().enumerate() {
                // every server that is gone must have taken its rendezvous entry with it, whatever
                // else is still alive
                let entries = interpose::harness(|| files_below(&root));
                if entries.len() > total - i {
                    return Err(format!("[left-behind] {} of {} servers are gone but {} rendezvous files remain: {:?}", i, total, entries.len(), entries.iter().take(4).collect::<Vec<_>>()));
                }
                if *accept_every > 0 && i % accept_every == 0 {
                    let tx = IpcSender::<Msg>::connect(name).map_err(|e| format!("connect: {}", e))?;
                    let mut keep = Vec::new();
                    tx.send(mk(0, Sz::S, false, &mut keep)).map_err(|e| e.to_string())?;
                    let (_rx, first) = s.accept().map_err(|e| format!("accept: {}", e))?;
                    check_msg(0, first, false)?;
                } else {
                    drop(s);
                }
            }
            after_accept_clean(&root, 0)?;
        },
        Case::ExecWhileAlive => {
            let before: Vec<i32> = interpose::harness(|| interpose::proc_fds().into_iter().map(|(f, _)| f).collect());
            let (server, name) = IpcOneShotServer::<Msg>::new().map_err(|e| e.to_string())?;
            let tx = IpcSender::<Msg>::connect(name).map_err(|e| e.to_string())?;
            let out = interpose::harness(|| std::process::Command::new("/proc/self/exe").arg("--list-fds").output()).map_err(|e| e.to_string())?;
            let txt = String::from_utf8_lossy(&out.stdout).to_string();
            // (descriptors that were open before the server existed are not the library's)
            let inherited: Vec<&str> = txt
                .lines()
                .filter(|l| l.contains("socket:") && !before.contains(&l.split(' ').next().and_then(|x| x.parse().ok()).unwrap_or(-1)))
                .collect();
            if !inherited.is_empty() {
                return Err(format!("[left-behind] an exec'ed child inherits rendezvous descriptors: {:?}", inherited));
            }
            drop(tx);
            drop(server);
            after_accept_clean(&root, 0)?;
        },
        Case::DroppedUnused { with_connected_client } => {
            let (server, name) = IpcOneShotServer::<Msg>::new().map_err(|e| e.to_string())?;
            let tx = if *with_connected_client { Some(IpcSender::<Msg>::connect(name).map_err(|e| e.to_string())?) } else { None };
            drop(server);
            after_accept_clean(&root, 0)?;
            if let Some(tx) = tx {
                let mut keep = Vec::new();
                // the rendezvous is gone: nobody will ever receive this
                let _ = tx.send(mk(0, Sz::S, false, &mut keep));
                if tx.send(mk(1, Sz::S, false, &mut keep)).is_ok() && tx.send(mk(2, Sz::S, false, &mut keep)).is_ok() {
                    return Err("[left-behind] sends to a server that was dropped unused keep succeeding: its rendezvous socket is still alive somewhere".into());
                }
            }
        },
    }
    interpose::harness(|| {
        let _ = std::fs::remove_dir_all(&root);
    });
    Ok(())
}

fn e2_cases(tier: Tier) -> Vec<Case> {
    let mut v = Vec::new();
    let maxn = if tier.is_quick() { 5 } else { 20 };
    for n in 1..=maxn {
        for big_every in [0usize, 2, 3] {
            v.push(Case::ExitedClient { n, big_every });
            if n <= 3 || !tier.is_quick() {
                v.push(Case::SpawnedClient { n, big_every });
            }
        }
    }
    let ns: Vec<usize> = if tier.is_quick() { vec![1, 2, 50] } else { vec![1, 2, 3, 10, 50, 100, 200] };
    for n in ns {
        for accept_every in [0usize, 1, 3] {
            v.push(Case::ManyServers { n, accept_every });
        }
    }
    v.push(Case::DroppedUnused { with_connected_client: false });
    v.push(Case::DroppedUnused { with_connected_client: true });
    v.push(Case::ExecWhileAlive);
    v
}

pub fn run(tier: Tier, part_only: bool) -> i32 {
    super::run_with_inproc("C08", tier, part_only, "model_checking", &run_all)
}

fn run_all(rep: &mut Report, tier: Tier) {
    // cheap check: both tiers run the thorough scenarios and cases (about ten seconds)
    let _ = tier;
    let tier = Tier::Thorough;
    rep.set("tiers", json!("the quick tier runs the thorough tier's scenarios and cases as well (the whole check takes about ten seconds)"));
    let scs = scenarios(tier);
    let tot = e1::run_scenarios(rep, &scs, &e1::strict_judge, 2500.0);
    let mut cs = e2_cases(tier);
    if cfg!(feature = "inproc") {
        // the in-process rendezvous is a registry inside one process: no forked, spawned or exec'ed peers
        cs.retain(|c| matches!(c, Case::ManyServers { .. } | Case::DroppedUnused { .. }));
    }
    let mut n = 0u64;
    let mut fails = Vec::new();
    let cfg = Cfg { sched: true, fake_sndbuf: Some(4608), ..Default::default() };
    sweep(&cs, 120.0, &|_| cfg.clone(), &e2_body, &mut |_, c, out| {
        n += 1;
        match super::describe(out) {
            Ok(_) => {},
            Err(e) if e.starts_with("MACHINERY") => rep.machinery(format!("{} :: {:?}", e, c)),
            Err(e) => fails.push((c.clone(), e)),
        }
    });
    for (c, e) in fails {
        rep.fail(&format!("{} :: {:?}", e, c), json!({"engine": "E2", "case": c}));
    }
    rep.set("sequential_cases", json!(n));
    rep.sample(json!({"sequential_case": cs[cs.len() / 2]}));
    rep.set("evaluations", json!(tot.execs + n));
    rep.set("distinct_nontrivial", json!(tot.with_switch + n));
    rep.set("deviation_bound", json!(tot.max_bound));
    rep.set("rule", json!("E1: one evaluation = one schedule (<= bound deviations) of a server task (new, accept) and a client task (connect, 1-3 messages of mixed size, optionally one with sender+region, drop): accept-first, connect-first, sends before accept and client finished before accept all arise as schedules; a two-way bootstrap (the client's first message names a second server it created after connecting); with a fake or a kernel-enforced 4608-byte send buffer (the client then blocks until the server drains). E2: forked client and separately exec'ed client that exit before accept with 1..5 (20) messages queued, 1..50 (200) servers alive at once (names distinct; accepted or dropped), server dropped unused with and without a connected client; after accept / drop the temp root must be empty and no listening descriptor open"));
    rep.assume("the spawned (exec'ed) client is the harness binary itself in a client mode");
}

pub fn replay(tier: Tier, v: &Value) -> i32 {
    let v = if v.get("variant").is_some() { &v["case"] } else { v };
    if v["engine"] == "E2" {
        let Ok(c) = serde_json::from_value::<Case>(v["case"].clone()) else { return 2 };
        let cfg = Cfg { sched: true, fake_sndbuf: Some(4608), ..Default::default() };
        for r in 0..2 {
            let out = crate::exec::run_one(&cfg, 120.0, &|| e2_body(&c));
            println!("replay round {}: {:?} -> {:?}", r, c, super::describe(&out));
        }
        return 0;
    }
    let mut scs = scenarios(tier);
    scs.extend(scenarios(if tier.is_quick() { Tier::Thorough } else { Tier::Quick }));
    e1::replay(&scs, v)
}
