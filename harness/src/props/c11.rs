//! C11 — no descriptor, mapping or file is leaked, closed twice or inherited.
//! E2: every operation sequence up to a length bound over the public API (including failing
//! operations), then all handles dropped in forward or reverse order; descriptor ledger kept
//! at the libc boundary in no-reuse numbering mode, /proc cross-checks, exec'ed child check.
use super::sweep;
use crate::common::{pattern, Report, Tier};
use crate::exec::obs;
use crate::interpose::{self, Cfg};
use crate::sched;
use ipc_channel::ipc::{
    self, IpcBytesReceiver, IpcBytesSender, IpcOneShotServer, IpcReceiver, IpcReceiverSet, IpcSender, IpcSharedMemory,
};
use ipc_channel::platform::OsIpcSender;
use ipc_channel::router::RouterProxy;
use serde::{Deserialize, Serialize};
use serde_json::{json, Value};
use std::any::Any;
use std::collections::HashSet;

#[derive(Clone, Copy, Debug, Serialize, Deserialize, PartialEq, Eq, Hash)]
pub enum Op {
    Channel,
    BytesChannel,
    CloneSender,
    SendSmall,
    SendBig,
    SendAttached,
    Recv,
    TryRecvMsg,
    TimedRecvMsg,
    TryRecvEmpty,
    TransferReceiver,
    SetAddSelect,
    RegionCreate,
    RegionClone,
    OneShotRoundTrip,
    OneShotDropUnused,
    ConnectNonexistent,
    SendToClosed,
    RouterRouteClose,
}

pub const ALL: [Op; 19] = [
    Op::Channel,
    Op::BytesChannel,
    Op::CloneSender,
    Op::SendSmall,
    Op::SendBig,
    Op::SendAttached,
    Op::Recv,
    Op::TryRecvMsg,
    Op::TimedRecvMsg,
    Op::TryRecvEmpty,
    Op::TransferReceiver,
    Op::SetAddSelect,
    Op::RegionCreate,
    Op::RegionClone,
    Op::OneShotRoundTrip,
    Op::OneShotDropUnused,
    Op::ConnectNonexistent,
    Op::SendToClosed,
    Op::RouterRouteClose,
];

#[derive(Clone, Debug, Serialize, Deserialize, PartialEq, Eq, Hash)]
pub struct Case {
    pub ops: Vec<Op>,
    pub reverse_drop: bool,
    pub exec_check: bool,
}

#[derive(Serialize, Deserialize)]
pub enum Att {
    Tx(IpcSender<u32>),
    Rx(IpcReceiver<u32>),
    Shm(IpcSharedMemory),
}
type M = (Vec<u8>, Vec<Att>);

struct Ch {
    tx: Option<IpcSender<M>>,
    rx: Option<IpcReceiver<M>>,
    queued: usize,
}

#[derive(Default)]
struct St {
    chs: Vec<Ch>,
    /// every other handle the program obtained, in order of acquisition
    misc: Vec<Box<dyn Any>>,
    regions: Vec<IpcSharedMemory>,
}

fn last(st: &mut St) -> Result<&mut Ch, String> {
    if st.chs.is_empty() {
        let (tx, rx) = ipc::channel::<M>().map_err(|e| e.to_string())?;
        st.chs.push(Ch { tx: Some(tx), rx: Some(rx), queued: 0 });
    }
    Ok(st.chs.last_mut().unwrap())
}

fn big() -> Vec<u8> {
    let m = OsIpcSender::get_max_fragment_size();
    pattern(if m == usize::MAX { 10000 } else { 2 * m + 100 }, 3)
}

fn apply(st: &mut St, op: Op) -> Result<(), String> {
    match op {
        Op::Channel => {
            let (tx, rx) = ipc::channel::<M>().map_err(|e| e.to_string())?;
            st.chs.push(Ch { tx: Some(tx), rx: Some(rx), queued: 0 });
        },
        Op::BytesChannel => {
            let (tx, rx): (IpcBytesSender, IpcBytesReceiver) = ipc::bytes_channel().map_err(|e| e.to_string())?;
            tx.send(&[1, 2, 3]).map_err(|e| e.to_string())?;
            let _ = rx.recv().map_err(|e| format!("{:?}", e))?;
            st.misc.push(Box::new(tx));
            st.misc.push(Box::new(rx));
        },
        Op::CloneSender => {
            let c = last(st)?;
            if let Some(t) = &c.tx {
                let t2 = t.clone();
                st.misc.push(Box::new(t2));
            }
        },
        Op::SendSmall | Op::SendBig => {
            let c = last(st)?;
            if let (Some(t), true) = (&c.tx, c.rx.is_some()) {
                let d = if op == Op::SendSmall { vec![1u8; 10] } else { big() };
                t.send((d, vec![])).map_err(|e| format!("send: {}", e))?;
                c.queued += 1;
            }
        },
        Op::SendAttached => {
            let (t1, r1) = ipc::channel::<u32>().map_err(|e| e.to_string())?;
            let (t2, r2) = ipc::channel::<u32>().map_err(|e| e.to_string())?;
            let reg = IpcSharedMemory::from_bytes(&pattern(5000, 1));
            let c = last(st)?;
            if let (Some(t), true) = (&c.tx, c.rx.is_some()) {
                t.send((vec![2u8; 10], vec![Att::Tx(t1), Att::Rx(r2), Att::Shm(reg)])).map_err(|e| format!("send: {}", e))?;
                c.queued += 1;
                st.misc.push(Box::new(r1));
                st.misc.push(Box::new(t2));
            }
        },
        Op::Recv | Op::TryRecvMsg | Op::TimedRecvMsg => {
            let c = last(st)?;
            if c.queued > 0 {
                if let Some(r) = &c.rx {
                    let (_, atts) = if op == Op::Recv {
                        r.recv().map_err(|e| format!("recv: {:?}", e))?
                    } else if op == Op::TryRecvMsg {
                        r.try_recv().map_err(|e| format!("try_recv: {:?}", e))?
                    } else {
                        r.try_recv_timeout(std::time::Duration::from_millis(5)).map_err(|e| format!("try_recv_timeout: {:?}", e))?
                    };
                    c.queued -= 1;
                    for a in atts {
                        st.misc.push(Box::new(a));
                    }
                }
            }
        },
        Op::TryRecvEmpty => {
            let c = last(st)?;
            if c.queued == 0 {
                if let Some(r) = &c.rx {
                    let _ = r.try_recv();
                    let _ = r.try_recv_timeout(std::time::Duration::from_millis(0));
                }
            }
        },
        Op::TransferReceiver => {
            let c = last(st)?;
            if let Some(r) = c.rx.take() {
                let (ctx, crx) = ipc::channel::<IpcReceiver<M>>().map_err(|e| e.to_string())?;
                ctx.send(r).map_err(|e| e.to_string())?;
                let back = crx.recv().map_err(|e| format!("{:?}", e))?;
                c.rx = Some(back);
            }
        },
        Op::SetAddSelect => {
            let c = last(st)?;
            if let Some(r) = c.rx.take() {
                let mut set = IpcReceiverSet::new().map_err(|e| e.to_string())?;
                set.add(r).map_err(|e| e.to_string())?;
                let mut left = c.queued;
                c.queued = 0;
                while left > 0 {
                    for ev in set.select().map_err(|e| e.to_string())? {
                        if let ipc::IpcSelectionResult::MessageReceived(_, m) = ev {
                            let (_, atts): M = m.to().map_err(|e| e.to_string())?;
                            for a in atts {
                                st.misc.push(Box::new(a));
                            }
                            left -= 1;
                        }
                    }
                }
                st.misc.push(Box::new(set));
            }
        },
        Op::RegionCreate => {
            st.regions.push(IpcSharedMemory::from_bytes(&pattern(4097, 2)));
            st.regions.push(IpcSharedMemory::from_byte(7, 100));
        },
        Op::RegionClone => {
            if st.regions.is_empty() {
                st.regions.push(IpcSharedMemory::from_bytes(&pattern(300, 2)));
            }
            let c = st.regions.last().unwrap().clone();
            st.regions.push(c);
        },
        Op::OneShotRoundTrip => {
            let (server, name) = IpcOneShotServer::<M>::new().map_err(|e| e.to_string())?;
            let tx = IpcSender::<M>::connect(name).map_err(|e| format!("connect: {}", e))?;
            tx.send((vec![3u8; 5], vec![])).map_err(|e| e.to_string())?;
            let (rx, _first) = server.accept().map_err(|e| format!("accept: {}", e))?;
            st.chs.push(Ch { tx: Some(tx), rx: Some(rx), queued: 0 });
        },
        Op::OneShotDropUnused => {
            let (server, _name) = IpcOneShotServer::<M>::new().map_err(|e| e.to_string())?;
            drop(server);
        },
        Op::ConnectNonexistent => {
            if IpcSender::<M>::connect("/tmp/vcheck-no-such-dir/socket".to_string()).is_ok() {
                return Err("connect to a non-existent name succeeded".into());
            }
        },
        Op::SendToClosed => {
            let (tx, rx) = ipc::channel::<M>().map_err(|e| e.to_string())?;
            drop(rx);
            let (t1, r1) = ipc::channel::<u32>().map_err(|e| e.to_string())?;
            let (t2, r2) = ipc::channel::<u32>().map_err(|e| e.to_string())?;
            if tx.send((vec![1], vec![Att::Tx(t1), Att::Rx(r2), Att::Shm(IpcSharedMemory::from_bytes(&[1, 2, 3]))])).is_ok() {
                return Err("send to a closed receiver succeeded".into());
            }
            let (t3, r3) = ipc::channel::<u32>().map_err(|e| e.to_string())?;
            let _ = tx.send((big(), vec![Att::Rx(r3)]));
            st.misc.push(Box::new(tx));
            st.misc.push(Box::new(r1));
            st.misc.push(Box::new(t2));
            st.misc.push(Box::new(t3));
        },
        Op::RouterRouteClose => {
            let proxy = RouterProxy::new();
            let (tx, rx) = ipc::channel::<u32>().map_err(|e| e.to_string())?;
            let xrx = proxy.route_ipc_receiver_to_new_crossbeam_receiver(rx);
            tx.send(5).map_err(|e| e.to_string())?;
            if xrx.recv() != Ok(5) {
                return Err("routed message lost".into());
            }
            drop(tx);
            if xrx.recv().is_ok() {
                return Err("routed channel did not close".into());
            }
            proxy.shutdown();
            drop(proxy);
        },
    }
    Ok(())
}

fn listing(dir: &str) -> Vec<String> {
    let mut v: Vec<String> = std::fs::read_dir(dir).map(|rd| rd.flatten().map(|e| e.file_name().to_string_lossy().to_string()).collect()).unwrap_or_default();
    v.sort();
    v
}

fn body(c: &Case) -> Result<(), String> {
    // a private temp root so that leftovers of other processes do not matter
    let root = format!("/tmp/vcheck-c11-{}", std::process::id());
    let (fds0, maps0) = interpose::harness(|| {
        // (process ids are recycled: make sure nothing of an earlier, aborted execution is left)
        let _ = std::fs::remove_dir_all(&root);
        let _ = std::fs::create_dir_all(&root);
        (interpose::proc_fds(), interpose::shared_maps().len())
    });
    std::env::set_var("TMPDIR", &root);
    let mut st = St::default();
    for op in &c.ops {
        apply(&mut st, *op)?;
    }
    if c.exec_check {
        // what would an unrelated child the program spawns inherit?
        let out = interpose::harness(|| std::process::Command::new("/proc/self/exe").arg("--list-fds").output());
        let out = out.map_err(|e| format!("exec check failed to run: {}", e))?;
        let txt = String::from_utf8_lossy(&out.stdout).to_string();
        let inherited: Vec<&str> = txt
            .lines()
            .filter(|l| {
                let fd: i32 = l.split(' ').next().and_then(|x| x.parse().ok()).unwrap_or(-1);
                // descriptors that were already open when this execution started are the
                // harness's own (or its caller's), not the library's
                fd > 2 && !l.contains("/proc/") && !fds0.iter().any(|(f, _)| *f == fd)
            })
            .collect();
        if !inherited.is_empty() {
            return Err(format!("[inherited] an exec'ed child inherits descriptors of the library: {:?}", inherited));
        }
    }
    // drop every handle, forward or reverse
    let mut all: Vec<Box<dyn Any>> = Vec::new();
    for ch in st.chs.drain(..) {
        if let Some(t) = ch.tx {
            all.push(Box::new(t));
        }
        if let Some(r) = ch.rx {
            all.push(Box::new(r));
        }
    }
    all.extend(st.misc.drain(..));
    for r in st.regions.drain(..) {
        all.push(Box::new(r));
    }
    if c.reverse_drop {
        while let Some(x) = all.pop() {
            drop(x);
        }
    } else {
        for x in all {
            drop(x);
        }
    }
    sched::settle();
    let snap = interpose::snapshot();
    let (fds1, maps1, tmp) = interpose::harness(|| (interpose::proc_fds(), interpose::shared_maps().len(), listing(&root)));
    interpose::harness(|| {
        let _ = std::fs::remove_dir_all(&root);
    });
    obs(format!("ops={}", c.ops.len()));
    if !snap.open_fds.is_empty() {
        return Err(format!("[leak] descriptors still open after every handle was dropped: {:?}", snap.open_fds));
    }
    if fds1 != fds0 {
        let extra: Vec<_> = fds1.iter().filter(|f| !fds0.contains(f)).collect();
        return Err(format!("[leak] /proc/self/fd differs from the start: extra {:?}", extra));
    }
    if maps1 != maps0 || snap.maps != 0 {
        return Err(format!("[leak] shared mappings left: {} in /proc/self/maps (was {}), {} in the ledger", maps1, maps0, snap.maps));
    }
    if !tmp.is_empty() {
        return Err(format!("[leak] temporary files left behind: {:?}", tmp));
    }
    for a in &snap.anomalies {
        match a.what.as_str() {
            "close-ebadf" | "close-foreign" | "close-error" | "reuse-of-open" => return Err(format!("[bad-close] {}", a.detail)),
            // creation without close-on-exec is not by itself a violation (the flag may be set
            // right afterwards): what counts is what an exec'ed child inherits, checked above
            "no-cloexec" => {},
            _ => {},
        }
    }
    Ok(())
}

fn cfg_of(_: &Case) -> Cfg {
    Cfg { sched: true, noreuse: true, fake_sndbuf: Some(4608), ..Default::default() }
}

pub fn cases(tier: Tier) -> Vec<Case> {
    let maxlen = if tier.is_quick() { 3 } else { 4 };
    let mut seqs: Vec<Vec<Op>> = vec![];
    let mut cur: Vec<Vec<Op>> = vec![vec![]];
    for _ in 0..maxlen {
        let mut nx = Vec::new();
        for p in &cur {
            for o in ALL {
                let mut q = p.clone();
                q.push(o);
                nx.push(q);
            }
        }
        seqs.extend(nx.iter().cloned());
        cur = nx;
    }
    let mut v = Vec::new();
    for (i, s) in seqs.into_iter().enumerate() {
        let n = s.len();
        v.push(Case { ops: s.clone(), reverse_drop: false, exec_check: n <= 2 || i % 3 == 0 });
        v.push(Case { ops: s, reverse_drop: true, exec_check: false });
    }
    if !tier.is_quick() {
        // a few length-5 and repeated sequences
        for o in ALL {
            v.push(Case { ops: vec![Op::Channel, Op::SendAttached, o, Op::Recv, o], reverse_drop: false, exec_check: true });
            v.push(Case { ops: vec![o; 20], reverse_drop: true, exec_check: false });
        }
    }
    v
}

pub fn run(tier: Tier, _part: bool) -> i32 {
    let mut rep = Report::new("C11", tier, "exploration");
    let cs = cases(tier);
    let mut n = 0u64;
    let mut distinct: HashSet<Case> = HashSet::new();
    let mut fails = Vec::new();
    sweep(&cs, 120.0, &cfg_of, &body, &mut |_, c, out| {
        n += 1;
        match super::describe(out) {
            Ok(_) => {
                if c.ops.len() > 1 {
                    distinct.insert(c.clone());
                }
            },
            Err(e) if e.starts_with("MACHINERY") => rep.machinery(e),
            Err(e) => fails.push((c.clone(), e)),
        }
    });
    // group by failure class + responsible operation so that one root cause is one line
    fails.sort_by_key(|(c, _)| c.ops.len());
    let mut seen: HashSet<String> = HashSet::new();
    for (c, e) in fails {
        let class = e.split(']').next().unwrap_or("").trim_start_matches('[').to_string();
        let key = format!("{}|{}", class, e.chars().take(90).collect::<String>());
        if seen.insert(key) {
            rep.fail(&format!("{} :: {:?}", e, c), serde_json::to_value(&c).unwrap());
        }
    }
    rep.set("evaluations", json!(n));
    rep.set("distinct_nontrivial", json!(distinct.len()));
    rep.set("rule", json!("case = operation sequence of length <= 3 (4 thorough) over 19 public-API operations (channel, bytes channel, clone, send small / 3-packet / with sender+receiver+region, recv, try_recv and try_recv_timeout of a message, try_recv on empty, transfer receiver, set add+select, region create / clone, one-shot round trip / dropped unused, connect to a non-existent name, send to a closed receiver, private router route + shutdown) x drop order forward / reverse; ledger in no-reuse numbering mode, /proc/self/fd + maps + temp-root listing compared with the start, exec'ed child lists what it inherited (all cases of length <= 2 and every 3rd longer one); distinct_nontrivial = passing sequences of length >= 2"));
    rep.set("exhaustive", json!(true));
    rep.sample(serde_json::to_value(&cs[cs.len() / 2]).unwrap());
    rep.sample(serde_json::to_value(&cs[cs.len() - 1]).unwrap());
    rep.assume("a single leak is visible in the ledger, so sequences are not repeated 10^5 times; length <= 400 of the quantifier is not reached");
    rep.assume("descriptors created through un-interposed calls (memfd_create by inline asm, openat inside std/tempfile) are covered by the /proc/self/fd comparison only");
    rep.finish()
}

pub fn replay(v: &Value) -> i32 {
    let Ok(c) = serde_json::from_value::<Case>(v.clone()) else { return 2 };
    for r in 0..2 {
        let out = crate::exec::run_one(&cfg_of(&c), 120.0, &|| body(&c));
        println!("replay round {}: {:?} -> {:?}", r, c, super::describe(&out));
        if r == 0 {
            if let Some(res) = &out.result {
                for a in &res.snapshot.anomalies {
                    println!("  anomaly: {:?}", a);
                }
            }
        }
    }
    0
}
