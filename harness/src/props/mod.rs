//! Per-property checks and the shared E2 sweep / multi-variant plumbing.
#![allow(dead_code)]
use crate::common::{Report, Tier};
use crate::exec::{Outcome, Pool, Status};
use crate::interpose::Cfg;
use serde::{Deserialize, Serialize};
use serde_json::{json, Value};
use std::collections::HashSet;

pub mod selftest;
pub mod c01;
pub mod c02;
pub mod c03;
pub mod c04;
pub mod c05;
pub mod c06;
pub mod c07;
pub mod c08;
pub mod c09;
pub mod c10;
pub mod c11;
pub mod c12;
pub mod c13;
pub mod c17;
pub mod c18;
pub mod c19;
#[cfg(feature = "async")]
pub mod c20;
pub mod c14;
pub mod c15;
pub mod c16;
pub mod e1;

pub fn variant() -> &'static str {
    if cfg!(feature = "inproc") {
        "inproc"
    } else if cfg!(feature = "memfd") {
        "memfd"
    } else if cfg!(vcheck_asan) {
        "asan"
    } else {
        "os"
    }
}

/// What one variant binary contributes to a check (printed as `PART <json>` by `--part` runs).
#[derive(Clone, Debug, Default, Serialize, Deserialize)]
pub struct Part {
    pub variant: String,
    pub evaluations: u64,
    pub distinct: u64,
    pub violations: Vec<(String, Value)>,
    pub machinery: Vec<String>,
    pub samples: Vec<Value>,
    pub counts: std::collections::BTreeMap<String, u64>,
    pub notes: Vec<String>,
    /// keys of recorded known findings that this part ran into (a part written against a Report
    /// filters them itself; the collecting build has to hear about them to print KNOWN-FINDING)
    #[serde(default)]
    pub known_hits: Vec<String>,
}

impl Part {
    pub fn new() -> Part {
        Part { variant: variant().to_string(), ..Default::default() }
    }
    /// the part of a check that was written against a Report: its verdicts and numeric coverage
    pub fn from_report(rep: &Report) -> Part {
        let mut p = Part::new();
        let num = |k: &str| rep.coverage.get(k).and_then(|v| v.as_u64()).unwrap_or(0);
        p.evaluations = num("evaluations");
        p.distinct = num("distinct_nontrivial");
        for (k, v) in &rep.coverage {
            if k != "evaluations" && k != "distinct_nontrivial" {
                if let Some(n) = v.as_u64() {
                    p.counts.insert(k.clone(), n);
                }
            }
        }
        p.violations = rep.violations.iter().take(50).cloned().collect();
        p.known_hits = rep.known.iter().zip(&rep.known_hit).filter(|(_, h)| **h).map(|(k, _)| k.key.clone()).collect();
        p.machinery = rep.machinery.clone();
        p.samples = rep.samples.iter().take(2).cloned().collect();
        if rep.coverage.get("exhaustive") == Some(&serde_json::json!(false)) {
            p.notes.push("a cap was hit in this variant".into());
        }
        p
    }
    pub fn fail(&mut self, sig: String, replay: Value) {
        if self.violations.len() < 50 {
            self.violations.push((sig, replay));
        }
    }
    pub fn count(&mut self, k: &str, n: u64) {
        *self.counts.entry(k.to_string()).or_insert(0) += n;
    }
    pub fn sample(&mut self, v: Value) {
        if self.samples.len() < 4 {
            self.samples.push(v);
        }
    }
    pub fn merge_into(&self, rep: &mut Report) {
        rep.add("evaluations", self.evaluations);
        rep.add("distinct_nontrivial", self.distinct);
        for (k, v) in &self.counts {
            rep.add(&format!("{}.{}", self.variant, k), *v);
        }
        for (sig, r) in &self.violations {
            rep.fail(&format!("[{}] {}", self.variant, sig), json!({"variant": self.variant, "case": r}));
        }
        for m in &self.machinery {
            rep.machinery(format!("[{}] {}", self.variant, m));
        }
        for k in &self.known_hits {
            // (matches the key in the collecting report's list: counted there as a known finding)
            rep.fail(&format!("[{}] {}", self.variant, k), serde_json::Value::Null);
        }
        for s in &self.samples {
            rep.sample(json!({"variant": self.variant, "case": s}));
        }
        if !self.notes.is_empty() {
            let mut cur = rep.coverage.get("notes").and_then(|v| v.as_array().cloned()).unwrap_or_default();
            for n in &self.notes {
                cur.push(json!(format!("[{}] {}", self.variant, n)));
            }
            rep.set("notes", Value::Array(cur));
        }
    }
}

/// Run the other variant binaries with `--part` and collect their parts.
pub fn run_variant_part(var: &str, id: &str, tier: Tier) -> Result<Part, String> {
    if std::env::var("VCHECK_MISSING").map(|m| m.split_whitespace().any(|x| x == var)).unwrap_or(false) {
        // this feature build of the repository does not compile: nothing to run; say so in the evidence
        let mut p = Part::new();
        p.variant = var.to_string();
        p.notes.push(format!("the {} build of /repo does not compile at the moment: variant skipped (see .target/build-{}.log)", var, var));
        println!("NOTE property={} variant {} skipped: it does not build", id, var);
        return Ok(p);
    }
    let envname = format!("VCHECK_BIN_{}", var.to_uppercase());
    let bin = std::env::var(&envname).map_err(|_| format!("{} not set (run through ./vc)", envname))?;
    let out = std::process::Command::new(&bin)
        .args([id, "--tier", tier.name(), "--part"])
        .output()
        .map_err(|e| format!("cannot run {}: {}", bin, e))?;
    let so = String::from_utf8_lossy(&out.stdout);
    for l in so.lines() {
        if let Some(j) = l.strip_prefix("PART ") {
            return serde_json::from_str::<Part>(j).map_err(|e| format!("bad PART from {}: {}", var, e));
        }
    }
    Err(format!(
        "variant {} produced no PART line (exit {:?}): {} {}",
        var,
        out.status.code(),
        so.chars().rev().take(400).collect::<String>().chars().rev().collect::<String>(),
        String::from_utf8_lossy(&out.stderr).chars().take(600).collect::<String>()
    ))
}

/// A check written against a Report that also runs, unchanged, on the in-process build: the OS
/// build runs `run_all`, then collects the in-process build's part; the in-process binary
/// (`--part`) runs `run_all` and emits its verdicts and counts.
pub fn run_with_inproc(id: &str, tier: Tier, part_only: bool, level: &'static str, run_all: &dyn Fn(&mut Report, Tier)) -> i32 {
    let mut rep = Report::new(id, tier, level);
    run_all(&mut rep, tier);
    if part_only {
        return emit_part(&Part::from_report(&rep));
    }
    match run_variant_part("inproc", id, tier) {
        Ok(p) => p.merge_into(&mut rep),
        Err(e) => rep.machinery(e),
    }
    rep.set("builds", serde_json::json!("everything above on the OS build, and again on the in-process build (keys prefixed inproc.)"));
    rep.finish()
}

pub fn emit_part(p: &Part) -> i32 {
    println!("PART {}", serde_json::to_string(p).unwrap());
    0
}

// ---------------------------------------------------------------------------
// E2 sweeps

pub struct CaseResult {
    pub idx: usize,
    /// Ok(observation summary) or Err(failure description)
    pub res: Result<String, String>,
    /// set when the case was run in its own child
    pub outcome: Option<Outcome>,
}

/// Describe a non-OK outcome of a single-case child.
pub fn describe(out: &Outcome) -> Result<String, String> {
    match out.status() {
        Status::Ok => {
            let r = out.result.as_ref().unwrap();
            if !r.panics.is_empty() {
                return Err(format!("panic on a thread: {}", r.panics.join(" | ")));
            }
            Ok(r.obs.join(";"))
        },
        Status::Violation(v) => Err(v),
        Status::Deadlock(d) => Err(format!("deadlock: {}", d)),
        Status::Panic(p) => {
            let extra = out.result.as_ref().map(|r| r.panics.join(" | ")).unwrap_or_default();
            Err(format!("panic/crash: {} {}", p, extra))
        },
        Status::Machinery(m) => Err(format!("MACHINERY {}", m)),
    }
}

/// Run every case in its own forked child (isolation: lazies, side tables, descriptors).
pub fn sweep<C>(
    cases: &[C],
    timeout_s: f64,
    cfg_of: &dyn Fn(&C) -> Cfg,
    body: &dyn Fn(&C) -> Result<(), String>,
    on: &mut dyn FnMut(usize, &C, &Outcome),
) {
    let timeout_s = std::env::var("VC_TIMEOUT").ok().and_then(|s| s.parse().ok()).unwrap_or(timeout_s);
    let mut pool: Pool<usize> = Pool::new(crate::exec::default_workers(), timeout_s);
    let mut next = 0;
    loop {
        while pool.has_capacity() && next < cases.len() {
            let c = &cases[next];
            let cfg = cfg_of(c);
            pool.submit(next, &cfg, &|| body(c));
            next += 1;
        }
        match pool.wait_any() {
            Some((i, out)) => on(i, &cases[i], &out),
            None => break,
        }
    }
}

/// Run cases in batches inside one child each (cheap, crash-free families); a batch that dies
/// or reports a failure is re-run case by case so the failure is attributed exactly.
pub fn sweep_batched<C>(
    cases: &[C],
    batch: usize,
    timeout_s: f64,
    cfg: &Cfg,
    body: &dyn Fn(&C) -> Result<(), String>,
    on: &mut dyn FnMut(usize, &C, Result<(), String>),
) {
    let chunks: Vec<(usize, usize)> = (0..cases.len()).step_by(batch.max(1)).map(|s| (s, (s + batch).min(cases.len()))).collect();
    let mut retry: Vec<usize> = Vec::new();
    {
        let mut pool: Pool<(usize, usize)> = Pool::new(crate::exec::default_workers(), timeout_s);
        let mut next = 0;
        loop {
            while pool.has_capacity() && next < chunks.len() {
                let (s, e) = chunks[next];
                pool.submit((s, e), cfg, &|| {
                    for c in &cases[s..e] {
                        body(c)?;
                    }
                    Ok(())
                });
                next += 1;
            }
            match pool.wait_any() {
                Some(((s, e), out)) => {
                    let clean = matches!(out.status(), Status::Ok)
                        && out.result.as_ref().map(|r| r.panics.is_empty()).unwrap_or(false);
                    if clean {
                        for i in s..e {
                            on(i, &cases[i], Ok(()));
                        }
                    } else {
                        retry.extend(s..e);
                    }
                },
                None => break,
            }
        }
    }
    if !retry.is_empty() {
        let sub: Vec<usize> = retry;
        sweep(
            &sub,
            timeout_s,
            &|_| cfg.clone(),
            &|i| body(&cases[*i]),
            &mut |_, i, out| on(*i, &cases[*i], describe(out).map(|_| ())),
        );
    }
}

pub fn distinct_count<T: std::hash::Hash + Eq>(it: impl Iterator<Item = T>) -> u64 {
    it.collect::<HashSet<T>>().len() as u64
}

// ---------------------------------------------------------------------------

pub fn run(id: &str, tier: Tier, rest: &[String]) -> i32 {
    let part = rest.iter().any(|a| a == "--part");
    match id {
        "C01" => c01::run(tier, part),
        "C02" => c02::run(tier, part),
        "C03" => c03::run(tier, part),
        "C04" => c04::run(tier, part),
        "C05" => c05::run(tier, part),
        "C06" => c06::run(tier, part),
        "C07" => c07::run(tier, part),
        "C08" => c08::run(tier, part),
        "C09" => c09::run(tier, part),
        "C10" => c10::run(tier, part),
        "C11" => c11::run(tier, part),
        "C12" => c12::run(tier, part),
        "C13" => c13::run(tier, part),
        "C17" => c17::run(tier, part),
        "C18" => c18::run(tier, part),
        "C19" => c19::run(tier, part),
        #[cfg(feature = "async")]
        "C20" => c20::run(tier, part),
        "C14" => c14::run(tier, part),
        "C15" => c15::run(tier, part),
        "C16" => c16::run(tier, part),
        _ => {
            eprintln!("unknown property {}", id);
            2
        },
    }
}

pub fn replay(file: &str) -> i32 {
    let Ok(s) = std::fs::read_to_string(file) else {
        eprintln!("cannot read {}", file);
        return 2;
    };
    let Ok(doc) = serde_json::from_str::<Value>(&s) else {
        eprintln!("not JSON: {}", file);
        return 2;
    };
    let prop = doc["property"].as_str().unwrap_or("");
    // a violation found by another build of the harness is replayed by that build
    if let Some(var) = doc["replay"]["variant"].as_str() {
        if var != variant() {
            if let Ok(me) = std::env::current_exe() {
                let other = me.to_string_lossy().replace(&format!("/{}/", variant()), &format!("/{}/", var));
                if other != me.to_string_lossy() && std::path::Path::new(&other).exists() {
                    return match std::process::Command::new(&other).args(["replay", file]).status() {
                        Ok(st) => st.code().unwrap_or(2),
                        Err(_) => 2,
                    };
                }
            }
        }
    }
    let tier = if doc["tier"] == "thorough" { Tier::Thorough } else { Tier::Quick };
    let _ = tier;
    match prop {
        "C01" => c01::replay(&doc["replay"]),
        "C02" => c02::replay(tier, &doc["replay"]),
        "C03" => c03::replay(tier, &doc["replay"]),
        "C04" => c04::replay(&doc["replay"]),
        "C05" => c05::replay(&doc["replay"]),
        "C06" => c06::replay(tier, &doc["replay"]),
        "C07" => c07::replay(tier, &doc["replay"]),
        "C17" => c17::replay(tier, &doc["replay"]),
        "C18" => c18::replay(&doc["replay"]),
        "C19" => c19::replay(&doc["replay"]),
        #[cfg(feature = "async")]
        "C20" => c20::replay(tier, &doc["replay"]),
        "C08" => c08::replay(tier, &doc["replay"]),
        "C09" => c09::replay(tier, &doc["replay"]),
        "C10" => c10::replay(tier, &doc["replay"]),
        "C11" => c11::replay(&doc["replay"]),
        "C12" => c12::replay(&doc["replay"]),
        "C13" => c13::replay(&doc["replay"]),
        "C14" => c14::replay(&doc["replay"]),
        "C15" => c15::replay(&doc["replay"]),
        "C16" => c16::replay(&doc["replay"]),
        _ => {
            eprintln!("no replay handler for {}", prop);
            2
        },
    }
}
