//! C16 — undecodable or mismatched payloads produce errors, not panics or leaks.
//! E2, bounded-exhaustive: every ordered pair (sent type, expected type) of a 12-type family,
//! every single-byte substitution / truncation / extension of every valid encoding, crafted
//! attachment indices (out of range, reused), attachment lists the type never references,
//! and receive-then-drop without decoding. Every case in a sacrificial child.
use super::sweep;
use crate::common::{Report, Tier};
use crate::exec::obs;
use crate::interpose::{self, Cfg};
use ipc_channel::ipc::{
    self, IpcBytesReceiver, IpcError, IpcReceiver, IpcReceiverSet, IpcSender, IpcSharedMemory, OpaqueIpcReceiver,
    TryRecvError,
};
use serde::ser::SerializeTuple;
use serde::{Deserialize, Deserializer, Serialize, Serializer};
use serde_json::{json, Value};
use std::any::Any;
use std::cell::RefCell;
use std::collections::HashSet;

// ---------------------------------------------------------------------------
// a message made of arbitrary bytes plus an arbitrary attachment list

#[derive(Clone, Copy, Debug, Serialize, Deserialize, PartialEq, Eq, Hash)]
pub enum AttKind {
    Tx,
    Rx,
    Shm,
}

pub enum Att {
    Tx(IpcSender<u32>),
    Rx(IpcReceiver<u32>),
    Shm(IpcSharedMemory),
}

pub enum Kept {
    RxOf(IpcReceiver<u32>),
    TxOf(IpcSender<u32>),
    Shm,
}

pub struct Raw {
    pub bytes: Vec<u8>,
    pub atts: RefCell<Vec<Att>>,
}

impl Serialize for Raw {
    fn serialize<S: Serializer>(&self, s: S) -> Result<S::Ok, S::Error> {
        // Serialising an endpoint registers it in the library's per-thread attachment list and
        // writes its index; send the index bytes to a throw-away sink, keep the registration.
        for a in self.atts.borrow().iter() {
            let mut sink: Vec<u8> = Vec::new();
            let r = match a {
                Att::Tx(t) => bincode::serialize_into(&mut sink, t),
                Att::Rx(r) => bincode::serialize_into(&mut sink, r),
                Att::Shm(m) => bincode::serialize_into(&mut sink, m),
            };
            r.map_err(|e| serde::ser::Error::custom(format!("{}", e)))?;
        }
        let mut t = s.serialize_tuple(self.bytes.len())?;
        for b in &self.bytes {
            t.serialize_element(b)?;
        }
        t.end()
    }
}

impl<'de> Deserialize<'de> for Raw {
    fn deserialize<D: Deserializer<'de>>(_d: D) -> Result<Self, D::Error> {
        Err(serde::de::Error::custom("Raw is send-only"))
    }
}

pub fn make_atts(kinds: &[AttKind]) -> Result<(Vec<Att>, Vec<Kept>), String> {
    let mut a = Vec::new();
    let mut k = Vec::new();
    for kind in kinds {
        match kind {
            AttKind::Tx => {
                let (t, r) = ipc::channel::<u32>().map_err(|e| e.to_string())?;
                a.push(Att::Tx(t));
                k.push(Kept::RxOf(r));
            },
            AttKind::Rx => {
                let (t, r) = ipc::channel::<u32>().map_err(|e| e.to_string())?;
                a.push(Att::Rx(r));
                k.push(Kept::TxOf(t));
            },
            AttKind::Shm => {
                a.push(Att::Shm(IpcSharedMemory::from_bytes(&[1, 2, 3, 4, 5])));
                k.push(Kept::Shm);
            },
        }
    }
    Ok((a, k))
}

// ---------------------------------------------------------------------------
// the type family

#[derive(Serialize, Deserialize, Debug)]
pub enum E {
    A,
    B(u32),
    C { x: String },
}

#[derive(Serialize, Deserialize, Debug)]
pub struct MixT {
    n: u32,
    tx: IpcSender<u32>,
    shm: IpcSharedMemory,
    s: String,
}

pub const NTYPES: usize = 12;
pub const TYPE_NAMES: [&str; NTYPES] = [
    "u64",
    "String",
    "Vec<u8>",
    "(u8,String)",
    "Option<u32>",
    "enum",
    "IpcSender",
    "IpcReceiver",
    "IpcSharedMemory",
    "(IpcSender,IpcSender)",
    "Vec<IpcSender>",
    "struct{u32,IpcSender,IpcSharedMemory,String}",
];

fn le(v: u64) -> Vec<u8> {
    v.to_le_bytes().to_vec()
}

fn enc_str(s: &str) -> Vec<u8> {
    let mut v = le(s.len() as u64);
    v.extend_from_slice(s.as_bytes());
    v
}

/// a valid encoding of a value of type `ti`, with the attachments it references
pub fn valid(ti: usize) -> (Vec<u8>, Vec<AttKind>) {
    use AttKind::*;
    match ti {
        0 => (le(0x1122334455667788), vec![]),
        1 => (enc_str("hello"), vec![]),
        2 => {
            let mut v = le(3);
            v.extend_from_slice(&[9, 8, 7]);
            (v, vec![])
        },
        3 => {
            let mut v = vec![7u8];
            v.extend(enc_str("ab"));
            (v, vec![])
        },
        4 => (vec![1, 5, 0, 0, 0], vec![]),
        5 => {
            let mut v = 2u32.to_le_bytes().to_vec();
            v.extend(enc_str("x"));
            (v, vec![])
        },
        6 => (le(0), vec![Tx]),
        7 => (le(0), vec![Rx]),
        8 => (le(0), vec![Shm]),
        9 => {
            let mut v = le(0);
            v.extend(le(1));
            (v, vec![Tx, Tx])
        },
        10 => {
            let mut v = le(2);
            v.extend(le(0));
            v.extend(le(1));
            (v, vec![Tx, Tx])
        },
        11 => {
            let mut v = 77u32.to_le_bytes().to_vec();
            v.extend(le(0)); // channel index
            v.extend(le(0)); // region index
            v.extend(enc_str("s"));
            (v, vec![Tx, Shm])
        },
        _ => unreachable!(),
    }
}

/// senders contained in a decoded value (to check that they belong to this message)
pub trait Senders {
    fn senders(&self) -> Vec<IpcSender<u32>> {
        vec![]
    }
}
impl Senders for u64 {}
impl Senders for String {}
impl Senders for Vec<u8> {}
impl Senders for (u8, String) {}
impl Senders for Option<u32> {}
impl Senders for E {}
impl Senders for IpcReceiver<u32> {}
impl Senders for IpcSharedMemory {}
impl Senders for IpcSender<u32> {
    fn senders(&self) -> Vec<IpcSender<u32>> {
        vec![self.clone()]
    }
}
impl Senders for (IpcSender<u32>, IpcSender<u32>) {
    fn senders(&self) -> Vec<IpcSender<u32>> {
        vec![self.0.clone(), self.1.clone()]
    }
}
impl Senders for Vec<IpcSender<u32>> {
    fn senders(&self) -> Vec<IpcSender<u32>> {
        self.clone()
    }
}
impl Senders for MixT {
    fn senders(&self) -> Vec<IpcSender<u32>> {
        vec![self.tx.clone()]
    }
}

std::thread_local! {
    static DECODED_SENDERS: RefCell<Vec<IpcSender<u32>>> = RefCell::new(Vec::new());
}

fn dec<T>(orx: OpaqueIpcReceiver) -> Result<(Box<dyn Any>, IpcReceiver<T>), (String, IpcReceiver<T>)>
where
    T: for<'de> Deserialize<'de> + Serialize + Senders + 'static,
{
    let rx: IpcReceiver<T> = orx.to();
    match rx.recv() {
        Ok(v) => {
            DECODED_SENDERS.with(|d| *d.borrow_mut() = v.senders());
            Ok((Box::new(v), rx))
        },
        Err(e) => Err((format!("{:?}", e), rx)),
    }
}

/// receive on `orx` expecting type `ti`; Ok(value kept alive) or Err(description);
/// the receiver itself is returned boxed so the caller decides when to drop it
fn decode_as(ti: usize, orx: OpaqueIpcReceiver) -> (Result<Box<dyn Any>, String>, Box<dyn Any>) {
    macro_rules! go {
        ($t:ty) => {
            match dec::<$t>(orx) {
                Ok((v, rx)) => (Ok(v), Box::new(rx) as Box<dyn Any>),
                Err((e, rx)) => (Err(e), Box::new(rx) as Box<dyn Any>),
            }
        };
    }
    match ti {
        0 => go!(u64),
        1 => go!(String),
        2 => go!(Vec<u8>),
        3 => go!((u8, String)),
        4 => go!(Option<u32>),
        5 => go!(E),
        6 => go!(IpcSender<u32>),
        7 => go!(IpcReceiver<u32>),
        8 => go!(IpcSharedMemory),
        9 => go!((IpcSender<u32>, IpcSender<u32>)),
        10 => go!(Vec<IpcSender<u32>>),
        11 => go!(MixT),
        _ => unreachable!(),
    }
}

// ---------------------------------------------------------------------------

#[derive(Clone, Debug, Serialize, Deserialize)]
pub enum How {
    /// decode with IpcReceiver::recv as type `expect`
    Decode { expect: usize },
    /// receive through a receiver set and drop the opaque message undecoded
    SelectAndDrop,
    /// the expected type is a bytes receiver (attachments cannot be handed over at all)
    BytesReceiver,
}

#[derive(Clone, Debug, Serialize, Deserialize)]
pub struct Case {
    pub label: String,
    pub bytes: Vec<u8>,
    pub atts: Vec<AttKind>,
    pub how: How,
    /// first receive (and fail to decode) another message with its own attachments on this thread
    #[serde(default)]
    pub after_failed_decode: bool,
}

fn body(c: &Case) -> Result<(), String> {
    let mut earlier_kept: Vec<Kept> = Vec::new();
    if c.after_failed_decode {
        // a message carrying two senders and a region, expected as (u8, String): decoding fails
        let (tx0, rx0) = ipc::channel::<Raw>().map_err(|e| e.to_string())?;
        let (a0, k0) = make_atts(&[AttKind::Tx, AttKind::Tx, AttKind::Shm])?;
        let (b0, _) = valid(9);
        tx0.send(Raw { bytes: b0, atts: RefCell::new(a0) }).map_err(|e| format!("harness: raw send failed: {}", e))?;
        let (res0, rx0box) = decode_as(3, rx0.to_opaque());
        if res0.is_ok() {
            return Err("harness: the preliminary message was expected to fail decoding".into());
        }
        drop(rx0box);
        drop(tx0);
        earlier_kept = k0;
    }
    let (tx, rx) = ipc::channel::<Raw>().map_err(|e| e.to_string())?;
    let (atts, kept) = make_atts(&c.atts)?;
    tx.send(Raw { bytes: c.bytes.clone(), atts: RefCell::new(atts) }).map_err(|e| format!("harness: raw send failed: {}", e))?;
    // (the Raw value, and with it our own handles of the attached endpoints, is gone now)
    let mut keep_alive: Vec<Box<dyn Any>> = Vec::new();
    match &c.how {
        How::Decode { expect } => {
            let (res, rxbox) = decode_as(*expect, rx.to_opaque());
            obs(format!("{}", if res.is_ok() { "value" } else { "error" }));
            if let Ok(v) = res {
                keep_alive.push(v);
                // an endpoint handed to the program must be one that was attached to this message
                // (checked when every attachment is a sender, where direction cannot be confused)
                let got: Vec<IpcSender<u32>> = DECODED_SENDERS.with(|d| std::mem::take(&mut *d.borrow_mut()));
                if !c.atts.is_empty() && c.atts.iter().all(|k| *k == AttKind::Tx) {
                    for (j, s) in got.iter().enumerate() {
                        let nonce = 77_000 + j as u32;
                        if s.send(nonce).is_err() {
                            return Err(format!("[foreign-endpoint] decoded sender #{} is unusable", j));
                        }
                        let hit = kept.iter().any(|k| matches!(k, Kept::RxOf(r) if matches!(r.try_recv(), Ok(n) if n == nonce)));
                        if !hit {
                            return Err(format!("[foreign-endpoint] decoded sender #{} does not lead to any channel that was attached to this message", j));
                        }
                    }
                }
                drop(got);
            }
            keep_alive.push(rxbox);
        },
        How::SelectAndDrop => {
            let mut set = IpcReceiverSet::new().map_err(|e| e.to_string())?;
            set.add(rx).map_err(|e| e.to_string())?;
            let evs = set.select().map_err(|e| e.to_string())?;
            obs(format!("events={}", evs.len()));
            drop(evs);
            keep_alive.push(Box::new(set));
        },
        How::BytesReceiver => {
            // a bytes receiver on this channel, obtained the way a type mismatch would produce it
            let (ctx, crx) = ipc::channel::<IpcReceiver<Raw>>().map_err(|e| e.to_string())?;
            ctx.send(rx).map_err(|e| e.to_string())?;
            let brx: IpcBytesReceiver = crx.to_opaque().to::<IpcBytesReceiver>().recv().map_err(|e| format!("{:?}", e))?;
            let r = brx.recv();
            obs(format!("bytes={}", r.map(|v| v.len() as i64).unwrap_or(-1)));
            keep_alive.push(Box::new(brx));
            keep_alive.push(Box::new(ctx));
        },
    }
    // release everything the program was given
    drop(keep_alive);
    drop(tx);
    // attachments that were not handed to the program must have been released:
    for (i, k) in kept.iter().enumerate() {
        match k {
            Kept::RxOf(r) => match r.try_recv() {
                Err(TryRecvError::IpcError(IpcError::Disconnected)) => {},
                other => {
                    return Err(format!(
                        "[attachment-not-released] attached sender #{} is still open somewhere after the message and every handle were dropped: {:?}",
                        i,
                        other.map(|_| "message")
                    ))
                },
            },
            Kept::TxOf(t) => {
                if t.send(1).is_ok() {
                    return Err(format!("[attachment-not-released] attached receiver #{} is still open after the message and every handle were dropped (send to it succeeds)", i));
                }
            },
            Kept::Shm => {},
        }
    }
    for (i, k) in earlier_kept.iter().enumerate() {
        if let Kept::RxOf(r) = k {
            match r.try_recv() {
                Err(TryRecvError::IpcError(IpcError::Disconnected)) => {},
                other => {
                    return Err(format!(
                        "[attachment-not-released] sender #{} attached to an EARLIER message that failed to decode is still open: {:?}",
                        i,
                        other.map(|n| format!("message {}", n))
                    ))
                },
            }
        }
    }
    drop(earlier_kept);
    drop(kept);
    let snap = interpose::snapshot();
    if !snap.open_fds.is_empty() {
        return Err(format!("[attachment-not-released] descriptors left open after everything was dropped: {:?}", snap.open_fds));
    }
    if let Some(a) = snap.anomalies.iter().find(|a| a.what.starts_with("close-")) {
        return Err(format!("[bad-close] {}", a.detail));
    }
    Ok(())
}

fn cfg_of(_: &Case) -> Cfg {
    Cfg { sched: true, ..Default::default() }
}

pub fn cases(tier: Tier) -> Vec<Case> {
    let mut v = Vec::new();
    // (1) every ordered pair (sent type, expected type)
    for s in 0..NTYPES {
        let (bytes, atts) = valid(s);
        for t in 0..NTYPES {
            v.push(Case {
                label: format!("pair sent={} expect={}", TYPE_NAMES[s], TYPE_NAMES[t]),
                bytes: bytes.clone(),
                atts: atts.clone(),
                how: How::Decode { expect: t },
                after_failed_decode: false,
            });
        }
        v.push(Case { label: format!("select-and-drop sent={}", TYPE_NAMES[s]), bytes: bytes.clone(), atts: atts.clone(), how: How::SelectAndDrop, after_failed_decode: false });
        v.push(Case { label: format!("bytes-receiver sent={}", TYPE_NAMES[s]), bytes: bytes.clone(), atts: atts.clone(), how: How::BytesReceiver, after_failed_decode: false });
    }
    // (2) mutations of every valid encoding, decoded as the same type
    // quick: six boundary byte values; thorough: every byte value at every offset
    let subs: Vec<u8> = if tier.is_quick() { vec![0x00, 0x01, 0x02, 0x7f, 0x80, 0xff] } else { (0..=255u8).collect() };
    for t in 0..NTYPES {
        let (bytes, atts) = valid(t);
        for off in 0..bytes.len() {
            for &sb in &subs {
                if bytes[off] == sb {
                    continue;
                }
                let mut b = bytes.clone();
                b[off] = sb;
                v.push(Case { label: format!("subst type={} off={} byte={:02x}", TYPE_NAMES[t], off, sb), bytes: b, atts: atts.clone(), how: How::Decode { expect: t }, after_failed_decode: false });
            }
        }
        for cut in 0..bytes.len() {
            v.push(Case { label: format!("truncate type={} to={}", TYPE_NAMES[t], cut), bytes: bytes[..cut].to_vec(), atts: atts.clone(), how: How::Decode { expect: t }, after_failed_decode: false });
        }
        for ext in [1usize, 8] {
            let mut b = bytes.clone();
            b.extend(std::iter::repeat(0xabu8).take(ext));
            v.push(Case { label: format!("extend type={} by={}", TYPE_NAMES[t], ext), bytes: b, atts: atts.clone(), how: How::Decode { expect: t }, after_failed_decode: false });
        }
    }
    // (3) crafted attachment indices
    for (t, kind) in [(6usize, AttKind::Tx), (7, AttKind::Rx), (8, AttKind::Shm)] {
        for natt in 0..=2usize {
            for idx in [0u64, 1, natt as u64, natt as u64 + 1, u64::MAX - 1, u64::MAX] {
                v.push(Case {
                    label: format!("index type={} attached={} index={}", TYPE_NAMES[t], natt, idx),
                    bytes: le(idx),
                    atts: vec![kind; natt],
                    how: How::Decode { expect: t },
                    after_failed_decode: false,
                });
            }
        }
    }
    // the same index used twice
    for (t, kinds) in [(9usize, vec![AttKind::Tx, AttKind::Tx]), (10, vec![AttKind::Tx, AttKind::Tx])] {
        let mut b = if t == 10 { le(2) } else { vec![] };
        b.extend(le(0));
        b.extend(le(0));
        v.push(Case { label: format!("index-reused type={}", TYPE_NAMES[t]), bytes: b, atts: kinds, how: How::Decode { expect: t }, after_failed_decode: false });
    }
    {
        // region index reused inside a vector-like pair: struct with region decoded twice is not in
        // the family; use the receiver pair analogue through type 7 twice via Vec<IpcSender> with 3
        let mut b = le(3);
        b.extend(le(1));
        b.extend(le(0));
        b.extend(le(1));
        v.push(Case { label: "index-reused type=Vec<IpcSender> (1,0,1)".into(), bytes: b, atts: vec![AttKind::Tx, AttKind::Tx], how: How::Decode { expect: 10 }, after_failed_decode: false });
    }
    // (4) attachment lists the type never references
    let maxn = if tier.is_quick() { 3 } else { 8 };
    let kinds = [AttKind::Tx, AttKind::Rx, AttKind::Shm];
    for t in [0usize, 1, 5, 6, 8] {
        let (bytes, own) = valid(t);
        for n in 1..=maxn {
            // all kind sequences of length n for n <= 3, rotations above
            let seqs: Vec<Vec<AttKind>> = if n <= 3 || (!tier.is_quick() && n <= 5) {
                let mut out = vec![vec![]];
                for _ in 0..n {
                    let mut nx = Vec::new();
                    for p in &out {
                        for k in kinds {
                            let mut q: Vec<AttKind> = p.clone();
                            q.push(k);
                            nx.push(q);
                        }
                    }
                    out = nx;
                }
                out
            } else {
                (0..3).map(|r| (0..n).map(|i| kinds[(i + r) % 3]).collect()).collect()
            };
            for sq in seqs {
                let mut atts = own.clone();
                atts.extend(sq.iter().cloned());
                v.push(Case {
                    label: format!("unused-attachments type={} extra={:?}", TYPE_NAMES[t], sq),
                    bytes: bytes.clone(),
                    atts,
                    how: How::Decode { expect: t },
                    after_failed_decode: false,
                });
            }
        }
    }
    // (5) the same decodes right after another message failed to decode on this thread
    let mut again: Vec<Case> = Vec::new();
    for c in v.iter() {
        if let How::Decode { expect } = &c.how {
            if c.label.starts_with("pair ") || (c.label.starts_with("index") && *expect == 6) {
                let mut d = c.clone();
                d.after_failed_decode = true;
                d.label = format!("after-failed-decode {}", c.label);
                again.push(d);
            }
        }
    }
    v.extend(again);
    v
}

pub fn run(tier: Tier, part_only: bool) -> i32 {
    super::run_with_inproc("C16", tier, part_only, "exploration", &run_all)
}

fn run_all(rep: &mut Report, tier: Tier) {
    let cs = cases(tier);
    let mut n = 0u64;
    let mut outcomes: HashSet<String> = HashSet::new();
    let mut fails = Vec::new();
    sweep(&cs, 60.0, &cfg_of, &body, &mut |_, c, out| {
        n += 1;
        match super::describe(out) {
            Ok(o) => {
                outcomes.insert(format!("{}/{}", c.label, o));
            },
            Err(e) if e.starts_with("MACHINERY") => rep.machinery(e),
            Err(e) => fails.push((c.clone(), e)),
        }
    });
    for (c, e) in fails {
        let class = if e.contains("Opaque channel is not a") && e.contains("platform/inprocess") {
            // (recorded known finding: the in-process back end panics when an attached sender is
            // decoded where the expected type has a receiver, or the reverse)
            "inproc-endpoint-kind-mismatch-panics"
        } else if e.contains("attachment-not-released") || e.contains("self.fd == -1") {
            "attachments-not-released"
        } else if e.contains("index out of bounds") || e.contains("ipc.rs") {
            "attachment-index-panic"
        } else if e.contains("result == 0") || e.contains("bad-close") {
            "bad-close"
        } else {
            "other"
        };
        rep.fail(&format!("[{}] {} :: {}", class, e, c.label), serde_json::to_value(&c).unwrap());
    }
    rep.set("evaluations", json!(n));
    rep.set("distinct_nontrivial", json!(outcomes.len()));
    rep.set("rule", json!("cases: (1) all 144 ordered pairs (sent type, expected type) of the 12-type family plus select-and-drop and bytes-receiver per type, (2) every single-byte substitution from {00,01,02,7f,80,ff} (thorough: all 256 values) at every offset, every truncation, 1- and 8-byte extensions of each valid encoding, (3) attachment index in {0,1,count,count+1,MAX-1,MAX} x 0..2 attachments x {sender,receiver,region}, reused indices, (4) every unused attachment list of length 1..3 (rotations up to 8 thorough) over {sender,receiver,region}, (5) all type pairs and sender-index cases again right after another message with attachments failed to decode on the same thread; distinct_nontrivial = distinct (case, value|error) outcomes that ended without panic or leak"));
    rep.set("exhaustive", json!(true));
    rep.sample(serde_json::to_value(&cs[7]).unwrap());
    rep.sample(serde_json::to_value(&cs[cs.len() / 2]).unwrap());
    rep.sample(serde_json::to_value(&cs[cs.len() - 1]).unwrap());
    rep.assume("arbitrary payload bytes and attachment lists are produced through the public API by a Serialize impl that registers endpoints and emits raw bytes");
    rep.assume("random 4 KiB strings of the quantifier are replaced by the bounded-exhaustive mutation family (no sampling in this technique)");
}

pub fn replay(v: &Value) -> i32 {
    let v = if v.get("variant").is_some() { &v["case"] } else { v };
    let Ok(c) = serde_json::from_value::<Case>(v.clone()) else { return 2 };
    for r in 0..2 {
        let out = crate::exec::run_one(&cfg_of(&c), 60.0, &|| body(&c));
        println!("replay round {}: {} -> {:?}", r, c.label, super::describe(&out));
    }
    0
}
