//! C13 — transient ENOBUFS during send is absorbed or reported, never damaging.
//! Fault enumeration: every subset of failing attempts among the first N transmission
//! attempts of one send (N = 7 quick, 10 thorough) x message shapes x attachments x two
//! effective buffer sizes; reader task under the E1 scheduler's default schedule.
use super::sweep;
use crate::common::{first_diff, pattern, Report, Tier};
use crate::exec::obs;
use crate::interpose::{self, Cfg};
use ipc_channel::ipc::{self, IpcSender, IpcSharedMemory};
use ipc_channel::platform::OsIpcSender;
use serde::{Deserialize, Serialize};
use serde_json::{json, Value};
use std::collections::HashSet;

#[derive(Clone, Copy, Debug, Serialize, Deserialize, PartialEq, Eq, Hash)]
pub enum Shape {
    /// one packet, at most 2000 bytes
    Small,
    /// one packet, more than 2000 bytes
    OneBig,
    P2,
    P3,
    P6,
}

#[derive(Clone, Debug, Serialize, Deserialize)]
pub struct Case {
    pub mask: u64,
    pub shape: Shape,
    pub attach: bool,
    /// None = system default buffer
    pub fake_sndbuf: Option<usize>,
}

type Msg = (Vec<u8>, Option<IpcSender<u32>>, Option<IpcSharedMemory>);

fn data_len(shape: Shape) -> usize {
    let m = OsIpcSender::get_max_fragment_size();
    match shape {
        Shape::Small => 1500,
        Shape::OneBig => (m * 3 / 4).max(2100).min(m - 64),
        Shape::P2 => m + 1000,
        Shape::P3 => 2 * m + 1000,
        Shape::P6 => 5 * m + 1000,
    }
}

pub fn body(c: &Case) -> Result<(), String> {
    let (tx, rx) = ipc::channel::<Msg>().map_err(|e| e.to_string())?;
    let (ntx, nrx) = ipc::channel::<u32>().map_err(|e| e.to_string())?;
    let len = data_len(c.shape);
    let data = pattern(len, c.mask);
    let region_bytes = pattern(5000, 9);
    let msg: Msg = if c.attach {
        (data.clone(), Some(ntx.clone()), Some(IpcSharedMemory::from_bytes(&region_bytes)))
    } else {
        (data.clone(), None, None)
    };
    let reader = std::thread::spawn(move || {
        let first = rx.recv();
        let second = match &first {
            Ok(_) => Some(rx.recv()),
            Err(_) => None,
        };
        (first, second)
    });
    interpose::arm();
    let r = tx.send(msg);
    let (attempts, _) = interpose::disarm();
    obs(format!("send={} attempts={}", if r.is_ok() { "ok" } else { "err" }, attempts));
    match r {
        Err(_) => {
            // allowed; what the receiver then sees is not constrained by this property
            Ok(())
        },
        Ok(()) => {
            let follow: Msg = (vec![7u8; 33], None, None);
            tx.send(follow).map_err(|e| format!("follow-on message failed after an accepted send: {}", e))?;
            let (first, second) = reader.join().map_err(|_| "reader panicked".to_string())?;
            let (d, s, reg) = first.map_err(|e| format!("send returned Ok but the receiver got an error: {:?}", e))?;
            if d.len() != len {
                return Err(format!("send returned Ok for {} bytes but {} arrived", len, d.len()));
            }
            if let Some(p) = first_diff(&d, &data) {
                return Err(format!("send returned Ok but the payload differs from offset {}", p));
            }
            if c.attach {
                let s = s.ok_or("attached sender missing")?;
                s.send(4242).map_err(|e| format!("attached sender does not work: {}", e))?;
                match nrx.try_recv() {
                    Ok(4242) => {},
                    other => return Err(format!("nonce through the attached sender did not arrive: {:?}", other)),
                }
                let reg = reg.ok_or("attached region missing")?;
                if &*reg != &region_bytes[..] {
                    return Err("attached region contents differ".into());
                }
            } else if s.is_some() || reg.is_some() {
                return Err("attachments appeared out of nowhere".into());
            }
            match second {
                Some(Ok((d2, None, None))) if d2 == vec![7u8; 33] => {},
                Some(Ok(_)) => return Err("the follow-on message arrived altered (or the first one twice)".into()),
                Some(Err(e)) => return Err(format!("follow-on message lost after an accepted send: {:?}", e)),
                None => return Err("reader stopped early".into()),
            }
            // every packet that went through must have fitted the buffer the receiver posted for it:
            // a truncated packet shows up as received bytes != sent bytes on that socket
            let tr = interpose::take_trace();
            let sent: i64 = tr.iter().filter(|t| (t.call == "send") && t.res > 0).map(|t| t.res).sum();
            let recvd: i64 = tr.iter().filter(|t| t.call == "recv" && t.res > 0).map(|t| t.res).sum();
            // (observable only while follow-ups are moved with send(2)/recv(2) on both sides)
            if sent > 0 && recvd > 0 && sent != recvd {
                return Err(format!("follow-up packets: {} bytes transmitted but {} bytes accepted by the receiver (a retry did not fit the posted buffer)", sent, recvd));
            }
            Ok(())
        },
    }
}

// --- the same faults on messages that carry (almost) as many attachments as one message can -----

#[derive(Clone, Debug, Serialize, Deserialize)]
pub struct ManyCase {
    pub mask: u64,
    pub shape: Shape,
    /// attachments in total
    pub count: usize,
    /// how many of them are regions (the last ones)
    pub regions: usize,
    pub fake_sndbuf: Option<usize>,
}

type ManyMsg = (Vec<u8>, Vec<IpcSender<u32>>, Vec<IpcSharedMemory>);

pub fn many_body(c: &ManyCase) -> Result<(), String> {
    let (tx, rx) = ipc::channel::<ManyMsg>().map_err(|e| e.to_string())?;
    let len = data_len(c.shape);
    let data = pattern(len, c.mask + 77);
    let mut senders = Vec::new();
    let mut probes = Vec::new();
    for _ in 0..(c.count - c.regions) {
        let (t, r) = ipc::channel::<u32>().map_err(|e| e.to_string())?;
        senders.push(t);
        probes.push(r);
    }
    let regions: Vec<IpcSharedMemory> = (0..c.regions).map(|i| IpcSharedMemory::from_bytes(&[i as u8 + 1; 300])).collect();
    let reader = std::thread::spawn(move || {
        let first = rx.recv();
        let second = match &first {
            Ok(_) => Some(rx.recv()),
            Err(_) => None,
        };
        (first, second)
    });
    interpose::arm();
    let r = tx.send((data.clone(), senders, regions));
    let (attempts, _) = interpose::disarm();
    obs(format!("send={} attempts={}", if r.is_ok() { "ok" } else { "err" }, attempts));
    if r.is_err() {
        return Ok(());
    }
    tx.send((vec![7u8; 33], vec![], vec![])).map_err(|e| format!("follow-on message failed after an accepted send: {}", e))?;
    // (a receiver that hangs on an accepted message is reported as a deadlock by the scheduler)
    let (first, second) = reader.join().map_err(|_| "reader panicked".to_string())?;
    let (d, ss, regs) = first.map_err(|e| format!("send returned Ok but the receiver got an error: {:?}", e))?;
    if d.len() != len {
        return Err(format!("send returned Ok for {} bytes but {} arrived", len, d.len()));
    }
    if let Some(p) = first_diff(&d, &data) {
        return Err(format!("send returned Ok but the payload differs from offset {}", p));
    }
    if ss.len() != c.count - c.regions || regs.len() != c.regions {
        return Err(format!("send returned Ok but {} senders and {} regions arrived instead of {} and {}", ss.len(), regs.len(), c.count - c.regions, c.regions));
    }
    for (i, s) in ss.iter().enumerate() {
        s.send(9000 + i as u32).map_err(|e| format!("attached sender #{} does not work: {}", i, e))?;
        match probes[i].try_recv() {
            Ok(v) if v == 9000 + i as u32 => {},
            other => return Err(format!("attached sender #{} is not the one that was sent at that position: {:?}", i, other)),
        }
    }
    for (i, g) in regs.iter().enumerate() {
        if &**g != &[i as u8 + 1; 300][..] {
            return Err(format!("attached region #{} differs", i));
        }
    }
    match second {
        Some(Ok((d2, a, b))) if d2 == vec![7u8; 33] && a.is_empty() && b.is_empty() => Ok(()),
        Some(Ok(_)) => Err("the follow-on message arrived altered (or the first one twice)".into()),
        Some(Err(e)) => Err(format!("follow-on message lost after an accepted send: {:?}", e)),
        None => Err("reader stopped early".into()),
    }
}

pub fn many_cases(tier: Tier) -> Vec<ManyCase> {
    let bits = if tier.is_quick() { 3 } else { 5 };
    let mut v = Vec::new();
    for fake in [Some(4608usize), None] {
        for shape in [Shape::OneBig, Shape::P2] {
            for count in [62usize, 63, 64] {
                for regions in [0usize, 1, count] {
                    for mask in 0..(1u64 << bits) {
                        v.push(ManyCase { mask, shape, count, regions, fake_sndbuf: fake });
                    }
                }
            }
        }
    }
    v
}

// --- platform level: the attachment lists themselves are visible -----------------------------------

/// One send through the platform API (what the typed layer sits on): the receiver must obtain
/// exactly the bytes, exactly `nch` channels and exactly `nshm` regions - a surplus descriptor (for
/// instance the dedicated fragment receiver of a retry that ended up unfragmented) is invisible
/// to a typed receiver, which closes what the type does not reference, but it is not "exactly the
/// message".
#[derive(Clone, Debug, Serialize, Deserialize)]
pub struct PlatCase {
    pub mask: u64,
    pub len: usize,
    pub nch: usize,
    pub nshm: usize,
    pub fake_sndbuf: Option<usize>,
}

pub fn plat_body(c: &PlatCase) -> Result<(), String> {
    use ipc_channel::platform::{self, OsIpcChannel, OsIpcSharedMemory};
    let (tx, rx) = platform::channel().map_err(|e| format!("{:?}", e))?;
    let data = pattern(c.len, c.mask + 5);
    let mut chans = Vec::new();
    let mut keep = Vec::new();
    for _ in 0..c.nch {
        let (t, r) = platform::channel().map_err(|e| format!("{:?}", e))?;
        chans.push(OsIpcChannel::Sender(t));
        keep.push(r);
    }
    let shms: Vec<OsIpcSharedMemory> = (0..c.nshm).map(|i| OsIpcSharedMemory::from_bytes(&[i as u8 + 3; 200])).collect();
    let want = data.clone();
    let reader = std::thread::spawn(move || rx.recv().map(|(d, ch, sh)| (d, ch.len(), sh.len())).map_err(|e| format!("{:?}", e)));
    interpose::arm();
    let r = tx.send(&data, chans, shms);
    let (attempts, _) = interpose::disarm();
    obs(format!("send={} attempts={}", if r.is_ok() { "ok" } else { "err" }, attempts));
    if r.is_err() {
        return Ok(());
    }
    let (d, nch, nshm) = reader.join().map_err(|_| "reader panicked".to_string())?.map_err(|e| format!("send returned Ok but the receiver got an error: {}", e))?;
    if d != want {
        return Err(format!("send returned Ok for {} bytes but {} arrived or they differ", want.len(), d.len()));
    }
    if nch != c.nch || nshm != c.nshm {
        return Err(format!("send returned Ok for a message with {} channels and {} regions, the receiver obtained {} channels and {} regions", c.nch, c.nshm, nch, nshm));
    }
    drop(keep);
    Ok(())
}

pub fn plat_cases(tier: Tier) -> Vec<PlatCase> {
    let bits = if tier.is_quick() { 3 } else { 6 };
    let mut v = Vec::new();
    for fake in [Some(4608usize), None] {
        let m = match fake {
            Some(_) => 4568usize,
            None => 212952,
        };
        // just above the 2000-byte give-up threshold, around a page, around one packet, two packets
        for len in [2001usize, 2100, 3000, 4055, 4056, 4057, 4097, m / 2, m - 1, m, m + 1, 2 * m + 7] {
            for (nch, nshm) in [(0usize, 0usize), (1, 0), (2, 1)] {
                for mask in 0..(1u64 << bits) {
                    v.push(PlatCase { mask, len, nch, nshm, fake_sndbuf: fake });
                }
            }
        }
    }
    v
}

pub fn cfg_of(c: &Case) -> Cfg {
    Cfg { sched: true, trace: true, fake_sndbuf: c.fake_sndbuf, enobufs_mask: c.mask, ..Default::default() }
}

pub fn cases(tier: Tier) -> Vec<Case> {
    let bits = if tier.is_quick() { 7 } else { 12 };
    let mut v = Vec::new();
    for fake in [Some(4608usize), None] {
        for shape in [Shape::Small, Shape::OneBig, Shape::P2, Shape::P3, Shape::P6] {
            for attach in [false, true] {
                for mask in 0..(1u64 << bits) {
                    v.push(Case { mask, shape, attach, fake_sndbuf: fake });
                }
            }
        }
    }
    v
}

pub fn run(tier: Tier, _part: bool) -> i32 {
    let mut rep = Report::new("C13", tier, "fault_enumeration");
    let cs = cases(tier);
    let mut n = 0u64;
    let mut outcomes: HashSet<String> = HashSet::new();
    let mut n_ok = 0u64;
    let mut n_err = 0u64;
    let mut fails = Vec::new();
    let mut mach = Vec::new();
    sweep(&cs, 120.0, &cfg_of, &body, &mut |_, c, out| {
        n += 1;
        match super::describe(out) {
            Ok(o) => {
                if o.contains("send=ok") {
                    n_ok += 1;
                } else {
                    n_err += 1;
                }
                outcomes.insert(format!("{:?}/{}/{:?}/{}", c.shape, c.attach, c.fake_sndbuf, o));
            },
            Err(e) if e.starts_with("MACHINERY") => mach.push(e),
            Err(e) => fails.push((c.clone(), e)),
        }
    });
    for m in mach {
        rep.machinery(m);
    }
    for (c, e) in fails {
        rep.fail(&format!("{} :: {:?}", e, c), serde_json::to_value(&c).unwrap());
    }
    let mcs = many_cases(tier);
    let mut mfails = Vec::new();
    sweep(&mcs, 120.0, &|c: &ManyCase| Cfg { sched: true, fake_sndbuf: c.fake_sndbuf, enobufs_mask: c.mask, ..Default::default() }, &many_body, &mut |_, c, out| {
        n += 1;
        match super::describe(out) {
            Ok(o) => {
                if o.contains("send=ok") {
                    n_ok += 1;
                } else {
                    n_err += 1;
                }
                outcomes.insert(format!("many/{:?}/{}/{}/{:?}/{}", c.shape, c.count, c.regions, c.fake_sndbuf, o));
            },
            Err(e) if e.starts_with("MACHINERY") => rep.machinery(e),
            Err(e) => mfails.push((c.clone(), e)),
        }
    });
    for (c, e) in mfails {
        rep.fail(&format!("{} :: {:?}", e, c), json!({"many": c}));
    }
    rep.set("many_attachment_cases", json!(mcs.len()));
    let pcs = plat_cases(tier);
    let mut pfails = Vec::new();
    sweep(&pcs, 120.0, &|c: &PlatCase| Cfg { sched: true, fake_sndbuf: c.fake_sndbuf, enobufs_mask: c.mask, ..Default::default() }, &plat_body, &mut |_, c, out| {
        n += 1;
        match super::describe(out) {
            Ok(o) => {
                if o.contains("send=ok") {
                    n_ok += 1;
                } else {
                    n_err += 1;
                }
                outcomes.insert(format!("plat/{}/{}/{}/{:?}/{}", c.len, c.nch, c.nshm, c.fake_sndbuf, o));
            },
            Err(e) if e.starts_with("MACHINERY") => rep.machinery(e),
            Err(e) => pfails.push((c.clone(), e)),
        }
    });
    for (c, e) in pfails {
        rep.fail(&format!("{} :: {:?}", e, c), json!({"plat": c}));
    }
    rep.set("platform_level_cases", json!(pcs.len()));
    rep.set("evaluations", json!(n));
    rep.set("distinct_nontrivial", json!(outcomes.len()));
    rep.set("sends_accepted", json!(n_ok));
    rep.set("sends_refused", json!(n_err));
    rep.set("rule", json!(format!("case = (ENOBUFS bitmask over the first {} transmission attempts of one send, shape in {{<=2000 B, one packet >2000 B, 2, 3, 6 packets}}, with/without sender+region attached, effective buffer 4608 / system default); all {} masks enumerated; plus the first 8 (32) masks on one-packet and two-packet messages carrying 62, 63 or 64 attachments (all senders, one region, all regions); plus platform-level sends (exact attachment lists visible) of 12 lengths from 2001 bytes to two packets x {{0, 1, 3}} attachments x the first 8 (64) masks; distinct_nontrivial = distinct (shape, attachments, buffer, send result, number of attempts) outcomes observed", if tier.is_quick() { 7 } else { 12 }, if tier.is_quick() { 128 } else { 4096 })));
    rep.set("exhaustive", json!(true));
    rep.sample(serde_json::to_value(&cs[cs.len() / 3]).unwrap());
    rep.sample(serde_json::to_value(&cs[cs.len() - 5]).unwrap());
    rep.assume("ENOBUFS is injected at the libc boundary (the kernel is not reached for a failed attempt), which is how the library observes it");
    rep.assume("what the receiver observes after a send that returned an error is not constrained by this property");
    rep.finish()
}

pub fn replay(v: &Value) -> i32 {
    if v.get("plat").is_some() {
        let Ok(c) = serde_json::from_value::<PlatCase>(v["plat"].clone()) else { return 2 };
        for r in 0..2 {
            let out = crate::exec::run_one(&Cfg { sched: true, fake_sndbuf: c.fake_sndbuf, enobufs_mask: c.mask, ..Default::default() }, 120.0, &|| plat_body(&c));
            println!("replay round {}: {:?} -> {:?}", r, c, super::describe(&out));
        }
        return 0;
    }
    if v.get("many").is_some() {
        let Ok(c) = serde_json::from_value::<ManyCase>(v["many"].clone()) else { return 2 };
        for r in 0..2 {
            let out = crate::exec::run_one(&Cfg { sched: true, fake_sndbuf: c.fake_sndbuf, enobufs_mask: c.mask, ..Default::default() }, 120.0, &|| many_body(&c));
            println!("replay round {}: {:?} -> {:?}", r, c, super::describe(&out));
        }
        return 0;
    }
    let Ok(c) = serde_json::from_value::<Case>(v.clone()) else { return 2 };
    for r in 0..2 {
        let out = crate::exec::run_one(&cfg_of(&c), 120.0, &|| body(&c));
        println!("replay round {}: {:?} -> {:?}", r, c, super::describe(&out));
        if r == 0 {
            if let Some(res) = &out.result {
                for t in &res.trace {
                    println!("  t{} {} fd{} len{} -> {}", t.task, t.call, t.fd, t.len, t.res);
                }
            }
        }
    }
    0
}
