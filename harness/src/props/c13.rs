//! C13 — transient ENOBUFS during send is absorbed or reported, never damaging.
//! Fault enumeration: every subset of failing attempts among the first N transmission
//! attempts of one send (N = 7 quick, 10 thorough) x message shapes x attachments x two
//! effective buffer sizes; reader task under the E1 scheduler's default schedule.
use super::sweep;
use crate::common::{first_diff, pattern, Report, Tier};
use crate::exec::obs;
use crate::interpose::{self, Cfg};
use ipc_channel::ipc::{self, IpcSender, IpcSharedMemory};
use ipc_channel::platform::OsIpcSender;
use serde::{Deserialize, Serialize};
use serde_json::{json, Value};
use std::collections::HashSet;

#[derive(Clone, Copy, Debug, Serialize, Deserialize, PartialEq, Eq, Hash)]
pub enum Shape {
    /// one packet, at most 2000 bytes
    Small,
    /// one packet, more than 2000 bytes
    OneBig,
    P2,
    P3,
    P6,
}

#[derive(Clone, Debug, Serialize, Deserialize)]
pub struct Case {
    pub mask: u64,
    pub shape: Shape,
    pub attach: bool,
    /// None = system default buffer
    pub fake_sndbuf: Option<usize>,
}

type Msg = (Vec<u8>, Option<IpcSender<u32>>, Option<IpcSharedMemory>);

fn data_len(shape: Shape) -> usize {
    let m = OsIpcSender::get_max_fragment_size();
    match shape {
        Shape::Small => 1500,
        Shape::OneBig => (m * 3 / 4).max(2100).min(m - 64),
        Shape::P2 => m + 1000,
        Shape::P3 => 2 * m + 1000,
        Shape::P6 => 5 * m + 1000,
    }
}

pub fn body(c: &Case) -> Result<(), String> {
    let (tx, rx) = ipc::channel::<Msg>().map_err(|e| e.to_string())?;
    let (ntx, nrx) = ipc::channel::<u32>().map_err(|e| e.to_string())?;
    let len = data_len(c.shape);
    let data = pattern(len, c.mask);
    let region_bytes = pattern(5000, 9);
    let msg: Msg = if c.attach {
        (data.clone(), Some(ntx.clone()), Some(IpcSharedMemory::from_bytes(&region_bytes)))
    } else {
        (data.clone(), None, None)
    };
    let reader = std::thread::spawn(move || {
        let first = rx.recv();
        let second = match &first {
            Ok(_) => Some(rx.recv()),
            Err(_) => None,
        };
        (first, second)
    });
    interpose::arm();
    let r = tx.send(msg);
    let (attempts, _) = interpose::disarm();
    obs(format!("send={} attempts={}", if r.is_ok() { "ok" } else { "err" }, attempts));
    match r {
        Err(_) => {
            // allowed; what the receiver then sees is not constrained by this property
            Ok(())
        },
        Ok(()) => {
            let follow: Msg = (vec![7u8; 33], None, None);
            tx.send(follow).map_err(|e| format!("follow-on message failed after an accepted send: {}", e))?;
            let (first, second) = reader.join().map_err(|_| "reader panicked".to_string())?;
            let (d, s, reg) = first.map_err(|e| format!("send returned Ok but the receiver got an error: {:?}", e))?;
            if d.len() != len {
                return Err(format!("send returned Ok for {} bytes but {} arrived", len, d.len()));
            }
            if let Some(p) = first_diff(&d, &data) {
                return Err(format!("send returned Ok but the payload differs from offset {}", p));
            }
            if c.attach {
                let s = s.ok_or("attached sender missing")?;
                s.send(4242).map_err(|e| format!("attached sender does not work: {}", e))?;
                match nrx.try_recv() {
                    Ok(4242) => {},
                    other => return Err(format!("nonce through the attached sender did not arrive: {:?}", other)),
                }
                let reg = reg.ok_or("attached region missing")?;
                if &*reg != &region_bytes[..] {
                    return Err("attached region contents differ".into());
                }
            } else if s.is_some() || reg.is_some() {
                return Err("attachments appeared out of nowhere".into());
            }
            match second {
                Some(Ok((d2, None, None))) if d2 == vec![7u8; 33] => {},
                Some(Ok(_)) => return Err("the follow-on message arrived altered (or the first one twice)".into()),
                Some(Err(e)) => return Err(format!("follow-on message lost after an accepted send: {:?}", e)),
                None => return Err("reader stopped early".into()),
            }
            // every packet that went through must have fitted the buffer the receiver posted for it:
            // a truncated packet shows up as received bytes != sent bytes on that socket
            let tr = interpose::take_trace();
            let sent: i64 = tr.iter().filter(|t| (t.call == "send") && t.res > 0).map(|t| t.res).sum();
            let recvd: i64 = tr.iter().filter(|t| t.call == "recv" && t.res > 0).map(|t| t.res).sum();
            // (observable only while follow-ups are moved with send(2)/recv(2) on both sides)
            if sent > 0 && recvd > 0 && sent != recvd {
                return Err(format!("follow-up packets: {} bytes transmitted but {} bytes accepted by the receiver (a retry did not fit the posted buffer)", sent, recvd));
            }
            Ok(())
        },
    }
}

pub fn cfg_of(c: &Case) -> Cfg {
    Cfg { sched: true, trace: true, fake_sndbuf: c.fake_sndbuf, enobufs_mask: c.mask, ..Default::default() }
}

pub fn cases(tier: Tier) -> Vec<Case> {
    let bits = if tier.is_quick() { 7 } else { 12 };
    let mut v = Vec::new();
    for fake in [Some(4608usize), None] {
        for shape in [Shape::Small, Shape::OneBig, Shape::P2, Shape::P3, Shape::P6] {
            for attach in [false, true] {
                for mask in 0..(1u64 << bits) {
                    v.push(Case { mask, shape, attach, fake_sndbuf: fake });
                }
            }
        }
    }
    v
}

pub fn run(tier: Tier, _part: bool) -> i32 {
    let mut rep = Report::new("C13", tier, "fault_enumeration");
    let cs = cases(tier);
    let mut n = 0u64;
    let mut outcomes: HashSet<String> = HashSet::new();
    let mut n_ok = 0u64;
    let mut n_err = 0u64;
    let mut fails = Vec::new();
    let mut mach = Vec::new();
    sweep(&cs, 120.0, &cfg_of, &body, &mut |_, c, out| {
        n += 1;
        match super::describe(out) {
            Ok(o) => {
                if o.contains("send=ok") {
                    n_ok += 1;
                } else {
                    n_err += 1;
                }
                outcomes.insert(format!("{:?}/{}/{:?}/{}", c.shape, c.attach, c.fake_sndbuf, o));
            },
            Err(e) if e.starts_with("MACHINERY") => mach.push(e),
            Err(e) => fails.push((c.clone(), e)),
        }
    });
    for m in mach {
        rep.machinery(m);
    }
    for (c, e) in fails {
        rep.fail(&format!("{} :: {:?}", e, c), serde_json::to_value(&c).unwrap());
    }
    rep.set("evaluations", json!(n));
    rep.set("distinct_nontrivial", json!(outcomes.len()));
    rep.set("sends_accepted", json!(n_ok));
    rep.set("sends_refused", json!(n_err));
    rep.set("rule", json!(format!("case = (ENOBUFS bitmask over the first {} transmission attempts of one send, shape in {{<=2000 B, one packet >2000 B, 2, 3, 6 packets}}, with/without sender+region attached, effective buffer 4608 / system default); all {} masks enumerated; distinct_nontrivial = distinct (shape, attachments, buffer, send result, number of attempts) outcomes observed", if tier.is_quick() { 7 } else { 12 }, if tier.is_quick() { 128 } else { 4096 })));
    rep.set("exhaustive", json!(true));
    rep.sample(serde_json::to_value(&cs[cs.len() / 3]).unwrap());
    rep.sample(serde_json::to_value(&cs[cs.len() - 5]).unwrap());
    rep.assume("ENOBUFS is injected at the libc boundary (the kernel is not reached for a failed attempt), which is how the library observes it");
    rep.assume("what the receiver observes after a send that returned an error is not constrained by this property");
    rep.finish()
}

pub fn replay(v: &Value) -> i32 {
    let Ok(c) = serde_json::from_value::<Case>(v.clone()) else { return 2 };
    for r in 0..2 {
        let out = crate::exec::run_one(&cfg_of(&c), 120.0, &|| body(&c));
        println!("replay round {}: {:?} -> {:?}", r, c, super::describe(&out));
        if r == 0 {
            if let Some(res) = &out.result {
                for t in &res.trace {
                    println!("  t{} {} fd{} len{} -> {}", t.task, t.call, t.fd, t.len, t.res);
                }
            }
        }
    }
    0
}
