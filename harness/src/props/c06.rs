//! C06 — a receiver set reports every event of every member exactly once.
//! E2: scripted histories (members added before / after traffic, bursts, many ready members,
//! closures, re-adding after a closure) single-task under the scheduler, where a select that
//! blocks while an event is pending is an exact deadlock; E1: sender tasks racing the selecting
//! task, with EINTR as an environment alternative on every wait.
use super::c02::{payload, validate, Sz};
use super::e1::{self, sched_cfg, Scenario};
use super::sweep;
use crate::common::{Report, Tier};
use crate::exec::obs;
use crate::interpose::Cfg;
use ipc_channel::ipc::{self, IpcReceiver, IpcReceiverSet, IpcSelectionResult, IpcSender};
use serde::{Deserialize, Serialize};
use serde_json::{json, Value};
use std::collections::{HashMap, HashSet, VecDeque};

#[derive(Clone, Debug, Serialize, Deserialize, PartialEq, Eq, Hash)]
pub enum Act {
    Add(usize),
    Send(usize, Sz),
    /// n small messages in a row
    Burst(usize, u32),
    DropSender(usize),
    /// select repeatedly until the ideal set has no pending event
    Drain,
}

#[derive(Clone, Debug, Serialize, Deserialize, PartialEq, Eq, Hash)]
pub struct Script {
    pub label: String,
    pub members: usize,
    pub acts: Vec<Act>,
}

struct MState {
    tx: Option<IpcSender<Vec<u8>>>,
    rx: Option<IpcReceiver<Vec<u8>>>,
    id: Option<u64>,
    /// sequence numbers sent and not yet reported
    pending: VecDeque<u32>,
    next_seq: u32,
    closed_reported: bool,
}

fn pending_events(ms: &[MState]) -> usize {
    ms.iter()
        .filter(|m| m.id.is_some() && !m.closed_reported)
        .map(|m| m.pending.len() + if m.tx.is_none() { 1 } else { 0 })
        .sum()
}

fn handle_events(ms: &mut [MState], evs: Vec<IpcSelectionResult>) -> Result<usize, String> {
    let n = evs.len();
    for ev in evs {
        match ev {
            IpcSelectionResult::MessageReceived(id, m) => {
                let k = ms.iter().position(|x| x.id == Some(id) && !x.closed_reported).ok_or_else(|| format!("event for unknown or closed id {}", id))?;
                let v: Vec<u8> = m.to().map_err(|e| format!("decode: {}", e))?;
                let (who, seq) = validate(&v)?;
                if who as usize != k {
                    return Err(format!("message of member {} was tagged with the id of member {}", who, k));
                }
                match ms[k].pending.pop_front() {
                    Some(want) if want == seq => {},
                    other => return Err(format!("member {}: got message seq {} but the next one sent was {:?} (lost, duplicated or reordered)", k, seq, other)),
                }
            },
            IpcSelectionResult::ChannelClosed(id) => {
                let k = ms.iter().position(|x| x.id == Some(id) && !x.closed_reported).ok_or_else(|| format!("closed event for unknown or already closed id {}", id))?;
                if ms[k].tx.is_some() {
                    return Err(format!("member {} reported closed while its sender is alive", k));
                }
                if !ms[k].pending.is_empty() {
                    return Err(format!("member {} reported closed before {} of its messages", k, ms[k].pending.len()));
                }
                ms[k].closed_reported = true;
            },
        }
    }
    Ok(n)
}

fn body(s: &Script) -> Result<(), String> {
    let mut set = IpcReceiverSet::new().map_err(|e| e.to_string())?;
    let mut ms: Vec<MState> = Vec::new();
    for _ in 0..s.members {
        let (tx, rx) = ipc::channel::<Vec<u8>>().map_err(|e| e.to_string())?;
        ms.push(MState { tx: Some(tx), rx: Some(rx), id: None, pending: VecDeque::new(), next_seq: 0, closed_reported: false });
    }
    let mut selects = 0;
    for a in &s.acts {
        match a {
            Act::Add(k) => {
                let rx = ms[*k].rx.take().ok_or("already added")?;
                let id = set.add(rx).map_err(|e| format!("add: {}", e))?;
                if let Some(o) = ms.iter().position(|x| x.id == Some(id) && !x.closed_reported) {
                    return Err(format!("add() returned id {} for member {} while member {} with the same id is still in the set", id, k, o));
                }
                ms[*k].id = Some(id);
            },
            Act::Send(k, sz) => {
                let q = ms[*k].next_seq;
                ms[*k].next_seq += 1;
                ms[*k].tx.as_ref().ok_or("sender gone")?.send(payload(*k as u32, q, sz.len())).map_err(|e| format!("send: {}", e))?;
                ms[*k].pending.push_back(q);
            },
            Act::Burst(k, n) => {
                for _ in 0..*n {
                    let q = ms[*k].next_seq;
                    ms[*k].next_seq += 1;
                    ms[*k].tx.as_ref().ok_or("sender gone")?.send(payload(*k as u32, q, 20)).map_err(|e| format!("send: {}", e))?;
                    ms[*k].pending.push_back(q);
                }
            },
            Act::DropSender(k) => {
                ms[*k].tx = None;
            },
            Act::Drain => {
                while pending_events(&ms) > 0 {
                    // (blocks => deadlock report: a message or closure is pending)
                    let evs = set.select().map_err(|e| format!("select: {}", e))?;
                    selects += 1;
                    let n = handle_events(&mut ms, evs)?;
                    if n == 0 {
                        return Err("select returned no event".into());
                    }
                }
            },
        }
    }
    obs(format!("selects={}", selects));
    Ok(())
}

pub fn scripts(tier: Tier) -> Vec<Script> {
    use Sz::*;
    let mut v = Vec::new();
    let ms: Vec<usize> = if tier.is_quick() { vec![1, 2, 9, 10, 11, 12] } else { vec![1, 2, 3, 5, 9, 10, 11, 12, 13, 20, 21, 33, 64] };
    for &m in &ms {
        for after in [false, true] {
            for with_close in [false, true] {
                let mut acts = Vec::new();
                if !after {
                    acts.extend((0..m).map(Act::Add));
                }
                for k in 0..m {
                    acts.push(Act::Send(k, if k % 5 == 4 { L2 } else { S }));
                    if with_close && k % 2 == 0 {
                        acts.push(Act::DropSender(k));
                    }
                }
                if after {
                    acts.extend((0..m).map(Act::Add));
                }
                acts.push(Act::Drain);
                // a second round: the wait must work again after a full batch
                for k in 0..m {
                    if !(with_close && k % 2 == 0) {
                        acts.push(Act::Send(k, S));
                    }
                }
                acts.push(Act::Drain);
                v.push(Script { label: format!("m={} add_after_traffic={} closures={}", m, after, with_close), members: m, acts });
            }
        }
    }
    // per-member sequences of mixed sizes (all sequences of length <= 2 quick / 3 thorough for two members)
    let maxl = if tier.is_quick() { 2 } else { 3 };
    let mut seqs: Vec<Vec<Sz>> = vec![vec![]];
    let mut cur: Vec<Vec<Sz>> = vec![vec![]];
    for _ in 0..maxl {
        let mut nx = Vec::new();
        for p in &cur {
            for s in [S, L2] {
                let mut q = p.clone();
                q.push(s);
                nx.push(q);
            }
        }
        seqs.extend(nx.iter().cloned());
        cur = nx;
    }
    for a in &seqs {
        for b in &seqs {
            for (drop_a, drop_b) in [(false, false), (true, false), (true, true)] {
                for after in [false, true] {
                    let mut acts = Vec::new();
                    if !after {
                        acts.push(Act::Add(0));
                        acts.push(Act::Add(1));
                    }
                    // interleave the two sequences
                    for i in 0..a.len().max(b.len()) {
                        if i < a.len() {
                            acts.push(Act::Send(0, a[i]));
                        }
                        if i < b.len() {
                            acts.push(Act::Send(1, b[i]));
                        }
                    }
                    if drop_a {
                        acts.push(Act::DropSender(0));
                    }
                    if drop_b {
                        acts.push(Act::DropSender(1));
                    }
                    if after {
                        acts.push(Act::Add(1));
                        acts.push(Act::Add(0));
                    }
                    acts.push(Act::Drain);
                    v.push(Script { label: format!("two members {:?} {:?} drop=({},{}) add_after={}", a, b, drop_a, drop_b, after), members: 2, acts });
                }
            }
        }
    }
    // bursts on one member between two waits
    let bursts: Vec<u32> = if tier.is_quick() { vec![63, 64, 65, 100, 150] } else { vec![9, 10, 11, 31, 32, 33, 63, 64, 65, 66, 100, 127, 128, 129, 150] };
    for &n in &bursts {
        for dropped in [false, true] {
            for after in [false, true] {
                let mut acts = vec![];
                if !after {
                    acts.push(Act::Add(0));
                    acts.push(Act::Add(1));
                }
                acts.push(Act::Burst(0, n));
                acts.push(Act::Send(1, S));
                if dropped {
                    acts.push(Act::DropSender(0));
                }
                if after {
                    acts.push(Act::Add(0));
                    acts.push(Act::Add(1));
                }
                acts.push(Act::Drain);
                acts.push(Act::Send(1, S));
                acts.push(Act::Drain);
                v.push(Script { label: format!("burst n={} dropped={} add_after={}", n, dropped, after), members: 2, acts });
            }
        }
    }
    // backlogs on several members in one wait, the newer member ready first: a batch of many
    // results in which results of one member are not adjacent to a fixed order of members
    let crosses: Vec<(u32, u32)> = if tier.is_quick() { vec![(15, 15), (40, 10), (10, 40)] } else { vec![(11, 10), (15, 15), (25, 25), (40, 10), (10, 40), (64, 64)] };
    for &(a, b) in &crosses {
        for three in [false, true] {
            for dropped in [false, true] {
                let mut acts = vec![Act::Add(0), Act::Add(1)];
                if three {
                    acts.push(Act::Add(2));
                    acts.push(Act::Burst(2, a));
                }
                acts.push(Act::Burst(1, a));
                acts.push(Act::Burst(0, b));
                acts.push(Act::Burst(1, 3));
                if dropped {
                    acts.push(Act::DropSender(1));
                }
                acts.push(Act::Drain);
                v.push(Script { label: format!("cross backlog {}+{} three={} dropped={}", a, b, three, dropped), members: 3, acts });
            }
        }
    }
    // ids after a closure: a member added later must not share an id with one still in the set
    for first_closed in [0usize, 1] {
        let other = 1 - first_closed;
        let acts = vec![
            Act::Add(0),
            Act::Add(1),
            Act::Send(first_closed, S),
            Act::DropSender(first_closed),
            Act::Drain,
            Act::Add(2),
            Act::Send(other, S),
            Act::Send(2, L2),
            Act::Drain,
            Act::Add(3),
            Act::DropSender(other),
            Act::Send(3, S),
            Act::Send(2, S),
            Act::Drain,
        ];
        v.push(Script { label: format!("re-add after member {} closed", first_closed), members: 4, acts });
    }
    v
}

// --- E1 ----------------------------------------------------------------------------------------

#[derive(Clone, Debug, Serialize, Deserialize)]
pub struct Race {
    /// per member: what its sender task sends before dropping the sender
    pub seqs: Vec<Vec<Sz>>,
    /// the last member is added by the selecting task only after the first select returned
    pub late_add: bool,
    pub eintr: u32,
}

fn race_body(r: &Race) -> Result<(), String> {
    let mut set = IpcReceiverSet::new().map_err(|e| e.to_string())?;
    let n = r.seqs.len();
    let mut ids: HashMap<u64, usize> = HashMap::new();
    let mut late: Option<IpcReceiver<Vec<u8>>> = None;
    let mut ths = Vec::new();
    for (k, seq) in r.seqs.iter().enumerate() {
        let (tx, rx) = ipc::channel::<Vec<u8>>().map_err(|e| e.to_string())?;
        if r.late_add && k == n - 1 {
            late = Some(rx);
        } else {
            let id = set.add(rx).map_err(|e| e.to_string())?;
            if ids.insert(id, k).is_some() {
                return Err(format!("id {} handed out twice", id));
            }
        }
        let seq = seq.clone();
        ths.push(std::thread::spawn(move || {
            for (q, sz) in seq.iter().enumerate() {
                tx.send(payload(k as u32, q as u32, sz.len())).expect("send");
            }
            drop(tx);
        }));
    }
    let mut next: Vec<u32> = vec![0; n];
    let mut closed: Vec<bool> = vec![false; n];
    let mut order = Vec::new();
    while closed.iter().any(|c| !c) {
        let evs = set.select().map_err(|e| format!("select: {}", e))?;
        if evs.is_empty() {
            return Err("select returned no event".into());
        }
        for ev in evs {
            match ev {
                IpcSelectionResult::MessageReceived(id, m) => {
                    let k = *ids.get(&id).ok_or_else(|| format!("unknown id {}", id))?;
                    let v: Vec<u8> = m.to().map_err(|e| e.to_string())?;
                    let (who, seq) = validate(&v)?;
                    if who as usize != k {
                        return Err(format!("message of member {} tagged as member {}", who, k));
                    }
                    if closed[k] {
                        return Err(format!("member {}: message after closed", k));
                    }
                    if seq != next[k] {
                        return Err(format!("member {}: got seq {} expected {}", k, seq, next[k]));
                    }
                    next[k] += 1;
                    order.push(k);
                },
                IpcSelectionResult::ChannelClosed(id) => {
                    let k = *ids.get(&id).ok_or_else(|| format!("unknown id {}", id))?;
                    if closed[k] {
                        return Err(format!("member {} closed twice", k));
                    }
                    if next[k] as usize != r.seqs[k].len() {
                        return Err(format!("member {} closed after {} of {} messages", k, next[k], r.seqs[k].len()));
                    }
                    closed[k] = true;
                },
            }
        }
        if let Some(rx) = late.take() {
            let id = set.add(rx).map_err(|e| e.to_string())?;
            if let Some(o) = ids.get(&id) {
                if !closed[*o] {
                    return Err(format!("late member got id {} of live member {}", id, o));
                }
            }
            ids.insert(id, n - 1);
        }
    }
    for t in ths {
        t.join().map_err(|_| "sender panicked".to_string())?;
    }
    obs(format!("{:?}", order));
    Ok(())
}

pub fn scenarios(tier: Tier) -> Vec<Scenario> {
    use Sz::*;
    let mut v = Vec::new();
    let mut add = |r: Race, bound: u32| {
        let name = format!("{:?}", r);
        let mut cfg = sched_cfg();
        cfg.eintr_budget = r.eintr;
        cfg.yield_alts = cfg!(feature = "inproc");
        v.push(Scenario::new(name, cfg, bound, move || race_body(&r)));
    };
    if tier.is_quick() {
        add(Race { seqs: vec![vec![S, L2], vec![L2]], late_add: false, eintr: 1 }, 2);
        add(Race { seqs: vec![vec![S], vec![S, S]], late_add: true, eintr: 1 }, 2);
        add(Race { seqs: vec![vec![L2], vec![], vec![S]], late_add: true, eintr: 0 }, 1);
        add(Race { seqs: vec![vec![S, S], vec![S]], late_add: false, eintr: 2 }, 2);
    } else {
        let seqs: Vec<Vec<Sz>> = vec![vec![], vec![S], vec![L2], vec![S, L2], vec![L2, S], vec![S, S]];
        for a in &seqs {
            for b in &seqs {
                for late in [false, true] {
                    add(Race { seqs: vec![a.clone(), b.clone()], late_add: late, eintr: 2 }, 2);
                }
            }
        }
        add(Race { seqs: vec![vec![S, L2], vec![L2]], late_add: false, eintr: 2 }, 3);
        add(Race { seqs: vec![vec![S], vec![S, S]], late_add: true, eintr: 2 }, 3);
        add(Race { seqs: vec![vec![L2], vec![S], vec![S, L2]], late_add: true, eintr: 1 }, 2);
        add(Race { seqs: vec![vec![S, S], vec![S]], late_add: false, eintr: 2 }, 3);
        add(Race { seqs: vec![vec![S], vec![]], late_add: true, eintr: 2 }, 4);
    }
    v
}

pub fn run(tier: Tier, part_only: bool) -> i32 {
    super::run_with_inproc("C06", tier, part_only, "model_checking", &run_all)
}

fn run_all(rep: &mut Report, tier: Tier) {
    let scs = scenarios(tier);
    let tot = e1::run_scenarios(rep, &scs, &e1::strict_judge, if tier.is_quick() { 30.0 } else { 3000.0 });
    let ss = scripts(tier);
    let cfg = Cfg { sched: true, fake_sndbuf: Some(4608), ..Default::default() };
    let mut n = 0u64;
    let mut distinct: HashSet<Script> = HashSet::new();
    let mut fails = Vec::new();
    sweep(&ss, 120.0, &|_| cfg.clone(), &body, &mut |_, c, out| {
        n += 1;
        match super::describe(out) {
            Ok(_) => {
                distinct.insert(c.clone());
            },
            Err(e) if e.starts_with("MACHINERY") => rep.machinery(e),
            Err(e) => fails.push((c.clone(), e)),
        }
    });
    for (c, e) in fails {
        rep.fail(&format!("{} :: script {}", e, c.label), json!({"engine": "E2-script", "case": c}));
    }
    // a sender that dies mid-message while the member is in the set: reported as closed exactly when
    // no sender survives (the crash machinery of C12 with the receiver set as observer)
    let ncrash = super::c12::run_for(rep, &[super::c12::Watch::Select], "sender crash seen through the receiver set");
    n += ncrash;
    rep.set("scripted_histories", json!(n - ncrash));
    rep.sample(json!({"scripted_history": ss[ss.len() / 2].label, "acts": ss[ss.len() / 2].acts}));
    rep.set("evaluations", json!(tot.execs + n));
    rep.set("distinct_nontrivial", json!(tot.with_switch + distinct.len() as u64));
    rep.set("deviation_bound", json!(tot.max_bound));
    rep.set("rule", json!("E1: one evaluation = one schedule (<= bound deviations, EINTR answers to epoll_wait among them) of sender tasks racing the selecting task, 2-3 members, optional member added after the first select; E2: scripted single-task histories (1..12 / ..64 ready members with traffic queued before or after add, all per-member size sequences up to length 2/3 for two members, bursts of 63..150 messages between two waits, backlogs of 10..64 messages on two or three members at once with the newer member ready first, re-adding after closures), where select blocking while the ideal set has a pending event is an exact deadlock; schedules are distinct by construction (the depth-first search never repeats a choice sequence) and a schedule counts as non-trivial when it contains at least one context switch; enumerated cases are distinct by construction"));
    rep.assume("batching of select results is normalised away: per-member sequences are compared");
}

pub fn replay(tier: Tier, v: &Value) -> i32 {
    let v = if v.get("variant").is_some() { &v["case"] } else { v };
    if v["engine"] == "crash-case" {
        return super::c12::replay(&v["case"]);
    }
    if v["engine"] == "E2-script" {
        let Ok(c) = serde_json::from_value::<Script>(v["case"].clone()) else { return 2 };
        let cfg = Cfg { sched: true, fake_sndbuf: Some(4608), ..Default::default() };
        for r in 0..2 {
            let out = crate::exec::run_one(&cfg, 120.0, &|| body(&c));
            println!("replay round {}: {} -> {:?}", r, c.label, super::describe(&out));
        }
        return 0;
    }
    let mut scs = scenarios(tier);
    scs.extend(scenarios(if tier.is_quick() { Tier::Thorough } else { Tier::Quick }));
    e1::replay(&scs, v)
}
