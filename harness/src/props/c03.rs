//! C03 — disconnection is reported exactly when no sender can exist any more.
//! (1) explicit-state BFS over handle histories on the reference model (canonical-state
//! dedup); every transition is replayed from scratch on the real API and compared;
//! (2) E1: the final drops racing a blocked / timed / polling receive.
use super::c02::CLOCK;
use super::e1::{self, sched_cfg, Scenario};
use super::sweep_batched;
use crate::common::{Report, Tier};
use crate::exec::obs;
use crate::interpose::Cfg;
use crate::model::{run_path, Op, World};
use crate::sched;
use ipc_channel::ipc::{self, IpcError, IpcReceiver, IpcSender, TryRecvError};
use serde::{Deserialize, Serialize};
use serde_json::{json, Value};
use std::collections::{HashMap, VecDeque};
use std::sync::atomic::Ordering;
use std::time::Duration;

pub struct Graph {
    pub nchan: usize,
    /// every transition as the full path that exercises it (shortest path to its source + op)
    pub paths: Vec<Vec<Op>>,
    pub states: usize,
    pub depth_reached: usize,
    pub closed: bool,
}

pub fn bfs(nchan: usize, max_depth: usize, max_queue: usize, max_handles: usize, with_proc: bool, max_states: usize) -> Graph {
    let w0 = World::new(nchan);
    let mut seen: HashMap<String, ()> = HashMap::new();
    seen.insert(w0.canon(), ());
    let mut frontier: VecDeque<(World, Vec<Op>)> = VecDeque::new();
    frontier.push_back((w0, vec![]));
    let mut paths = Vec::new();
    let mut depth_reached = 0;
    let mut closed = true;
    while let Some((w, path)) = frontier.pop_front() {
        depth_reached = depth_reached.max(path.len());
        if path.len() >= max_depth {
            if !w.ops(max_queue, max_handles, with_proc).is_empty() {
                closed = false;
            }
            continue;
        }
        for op in w.ops(max_queue, max_handles, with_proc) {
            let mut w2 = w.clone();
            w2.apply(&op);
            let mut p2 = path.clone();
            p2.push(op);
            paths.push(p2.clone());
            let k = w2.canon();
            if !seen.contains_key(&k) {
                if seen.len() >= max_states {
                    closed = false;
                    continue;
                }
                seen.insert(k, ());
                frontier.push_back((w2, p2));
            }
        }
    }
    Graph { nchan, paths, states: seen.len(), depth_reached, closed }
}

// --- E1 races ------------------------------------------------------------------------------------

#[derive(Clone, Copy, Debug, Serialize, Deserialize, PartialEq, Eq)]
pub enum Rcv {
    Blocking,
    Timed,
    Polling,
}

#[derive(Clone, Copy, Debug, Serialize, Deserialize, PartialEq, Eq)]
pub enum Shape {
    /// two clones dropped by two tasks
    TwoClones,
    /// one task sends a last message and drops; the other just drops
    LastSendThenDrop,
    /// one handle is inside an undelivered message on a carrier whose receiver another task drops
    InTransitCarrierDropped,
    /// one handle is in transit and is received and dropped by another task
    InTransitExtractedThenDropped,
}

#[derive(Clone, Debug, Serialize, Deserialize)]
pub struct Race {
    pub shape: Shape,
    pub rcv: Rcv,
}

fn race_body(r: &Race) -> Result<(), String> {
    let (tx, rx) = ipc::channel::<u32>().map_err(|e| e.to_string())?;
    let (ctx, crx) = ipc::channel::<IpcSender<u32>>().map_err(|e| e.to_string())?;
    // stamps of the beginning of each final drop; disconnection may not be seen before the last one
    let mut droppers: Vec<std::thread::JoinHandle<u64>> = Vec::new();
    let mut expect_msgs = 0;
    match r.shape {
        Shape::TwoClones => {
            let t2 = tx.clone();
            for h in [tx, t2] {
                droppers.push(std::thread::spawn(move || {
                    e1::inproc_point();
                    let s = CLOCK.fetch_add(1, Ordering::SeqCst);
                    drop(h);
                    s
                }));
            }
            drop(ctx);
            drop(crx);
        },
        Shape::LastSendThenDrop => {
            let t2 = tx.clone();
            expect_msgs = 1;
            droppers.push(std::thread::spawn(move || {
                e1::inproc_point();
                let _ = tx.send(77);
                e1::inproc_point();
                let s = CLOCK.fetch_add(1, Ordering::SeqCst);
                drop(tx);
                s
            }));
            droppers.push(std::thread::spawn(move || {
                let s = CLOCK.fetch_add(1, Ordering::SeqCst);
                drop(t2);
                s
            }));
            drop(ctx);
            drop(crx);
        },
        Shape::InTransitCarrierDropped => {
            let t2 = tx.clone();
            ctx.send(t2).map_err(|e| e.to_string())?;
            drop(ctx);
            droppers.push(std::thread::spawn(move || {
                let s = CLOCK.fetch_add(1, Ordering::SeqCst);
                drop(crx); // destroys the queue that carries the handle
                s
            }));
            droppers.push(std::thread::spawn(move || {
                let s = CLOCK.fetch_add(1, Ordering::SeqCst);
                drop(tx);
                s
            }));
        },
        Shape::InTransitExtractedThenDropped => {
            let t2 = tx.clone();
            ctx.send(t2).map_err(|e| e.to_string())?;
            drop(ctx);
            expect_msgs = 1;
            droppers.push(std::thread::spawn(move || {
                let h = crx.recv().expect("carrier recv");
                e1::inproc_point();
                let _ = h.send(78);
                e1::inproc_point();
                let s = CLOCK.fetch_add(1, Ordering::SeqCst);
                drop(h);
                drop(crx);
                s
            }));
            droppers.push(std::thread::spawn(move || {
                let s = CLOCK.fetch_add(1, Ordering::SeqCst);
                drop(tx);
                s
            }));
        },
    }
    let mut got = 0;
    let disc_stamp;
    e1::inproc_point();
    loop {
        let res: Result<u32, TryRecvError> = match r.rcv {
            Rcv::Blocking => rx.recv().map_err(TryRecvError::IpcError),
            Rcv::Timed => rx.try_recv_timeout(Duration::from_secs(30)),
            Rcv::Polling => rx.try_recv(),
        };
        let s = CLOCK.fetch_add(1, Ordering::SeqCst);
        match res {
            Ok(_) => got += 1,
            Err(TryRecvError::Empty) => {
                if r.rcv == Rcv::Polling {
                    sched::vyield();
                }
                // a timed wait that ran out while senders exist: fine, try again
            },
            Err(TryRecvError::IpcError(IpcError::Disconnected)) => {
                disc_stamp = s;
                break;
            },
            Err(e) => return Err(format!("receive failed: {:?}", e)),
        }
        if got > expect_msgs {
            return Err("more messages than sent".into());
        }
    }
    let mut last_drop_begin = 0;
    for d in droppers {
        last_drop_begin = last_drop_begin.max(d.join().map_err(|_| "dropper panicked".to_string())?);
    }
    obs(format!("got={}", got));
    if disc_stamp < last_drop_begin {
        return Err(format!(
            "'disconnected' was reported (stamp {}) before the last sender handle began to be dropped (stamp {})",
            disc_stamp, last_drop_begin
        ));
    }
    if got != expect_msgs {
        return Err(format!("'disconnected' was reported after {} of {} messages sent before the last drop", got, expect_msgs));
    }
    // and it stays disconnected
    match rx.try_recv() {
        Err(TryRecvError::IpcError(IpcError::Disconnected)) => Ok(()),
        other => Err(format!("after disconnection try_recv gives {:?}", other)),
    }
}

// --- an unrelated child process is exec'ed while handles are alive ---------------------------------

/// The only sender handle of a channel is one that was *received inside a message* (through each
/// receive variant). The program then execs an unrelated child that stays alive, and drops the
/// handle: no sender can exist any more, so the receiver must be told 'disconnected' - which it is
/// not if the child inherited the descriptor.
fn exec_body(how: &u8) -> Result<(), String> {
    use ipc_channel::ipc::{IpcReceiverSet, IpcSelectionResult};
    use std::io::{BufRead, BufReader};
    let (tx, rx) = ipc::channel::<u32>().map_err(|e| e.to_string())?;
    let (ctx, crx) = ipc::channel::<IpcSender<u32>>().map_err(|e| e.to_string())?;
    ctx.send(tx).map_err(|e| e.to_string())?;
    drop(ctx);
    let tx2: IpcSender<u32> = match *how {
        0 => crx.recv().map_err(|e| format!("{:?}", e))?,
        1 => crx.try_recv().map_err(|e| format!("{:?}", e))?,
        2 => crx.try_recv_timeout(Duration::from_secs(5)).map_err(|e| format!("{:?}", e))?,
        _ => {
            let mut set = IpcReceiverSet::new().map_err(|e| e.to_string())?;
            set.add(crx).map_err(|e| e.to_string())?;
            let mut got = None;
            for ev in set.select().map_err(|e| e.to_string())? {
                if let IpcSelectionResult::MessageReceived(_, m) = ev {
                    got = Some(m.to::<IpcSender<u32>>().map_err(|e| e.to_string())?);
                }
            }
            got.ok_or("select returned no message")?
        },
    };
    // an unrelated child, fully exec'ed before we go on (it says so)
    let mut child = std::process::Command::new("/proc/self/exe")
        .arg("--idle")
        .stdin(std::process::Stdio::piped())
        .stdout(std::process::Stdio::piped())
        .spawn()
        .map_err(|e| format!("MACHINERY: cannot spawn the idle child: {}", e))?;
    let mut line = String::new();
    BufReader::new(child.stdout.take().unwrap()).read_line(&mut line).map_err(|e| format!("MACHINERY: idle child: {}", e))?;
    if line.trim() != "ready" {
        return Err(format!("MACHINERY: idle child said {:?}", line));
    }
    tx2.send(5).map_err(|e| e.to_string())?;
    drop(tx2);
    let first = rx.recv().map_err(|e| format!("{:?}", e))?;
    let verdict = match rx.try_recv_timeout(Duration::from_millis(1500)) {
        Err(TryRecvError::IpcError(IpcError::Disconnected)) => Ok(()),
        other => Err(format!(
            "every sender handle has been dropped (the last one had been received inside a message by variant {}), yet the receiver is told {:?} instead of 'disconnected' while an unrelated exec'ed child is alive",
            how,
            other.map(|_| "a message")
        )),
    };
    drop(child.stdin.take());
    let _ = child.wait();
    if first != 5 {
        return Err("wrong message".into());
    }
    verdict
}

pub fn scenarios(tier: Tier) -> Vec<Scenario> {
    let mut v = Vec::new();
    for shape in [Shape::TwoClones, Shape::LastSendThenDrop, Shape::InTransitCarrierDropped, Shape::InTransitExtractedThenDropped] {
        for rcv in [Rcv::Blocking, Rcv::Timed, Rcv::Polling] {
            let r = Race { shape, rcv };
            let name = format!("{:?}", r);
            let bound = if tier.is_quick() { 3 } else { 4 };
            let mut cfg = sched_cfg();
            // (a polling receiver never parks: nothing to gain from letting it keep the processor)
            cfg.yield_alts = cfg!(feature = "inproc") && rcv != Rcv::Polling;
            v.push(Scenario::new(name, cfg, bound, move || race_body(&r)));
        }
    }
    v
}

fn path_body(nchan: usize) -> impl Fn(&Vec<Op>) -> Result<(), String> {
    move |p: &Vec<Op>| run_path(nchan, p, false)
}

pub fn run(tier: Tier, part_only: bool) -> i32 {
    super::run_with_inproc("C03", tier, part_only, "model_checking", &run_all)
}

fn run_all(rep: &mut Report, tier: Tier) {
    // (1) model BFS + conformance replay of every transition, for two bound sets
    let graphs: Vec<(usize, usize, usize)> = if tier.is_quick() { vec![(3, 4, 20000), (2, 7, 4000)] } else { vec![(3, 6, 80000), (4, 5, 60000), (2, 12, 20000)] };
    let mut n = 0u64;
    let mut states = 0u64;
    let mut transitions = 0u64;
    let mut all_closed = true;
    let mut bounds = Vec::new();
    let cfg = Cfg::default();
    for (nchan, depth, maxstates) in graphs {
        // (in-process channels do not cross fork(): no move-to-process operations in that build)
        let g = bfs(nchan, depth, 2, 4, !cfg!(feature = "inproc"), maxstates);
        let mut fails = Vec::new();
        sweep_batched(&g.paths, 32, 120.0, &cfg, &path_body(nchan), &mut |_, p, r| {
            n += 1;
            if let Err(e) = r {
                fails.push((p.clone(), e));
            }
        });
        for (p, e) in fails {
            if e.starts_with("MACHINERY") {
                rep.machinery(e);
            } else {
                rep.fail(&format!("{} :: path {:?}", e, p), json!({"engine": "model-path", "nchan": nchan, "path": p}));
            }
        }
        states += g.states as u64;
        transitions += g.paths.len() as u64;
        // "closed" here means: every history up to the depth bound was covered (the state cap was not hit)
        let complete_to_depth = g.states < maxstates;
        all_closed &= complete_to_depth;
        bounds.push(json!({"channels": nchan, "max_depth": depth, "max_queue_per_channel": 2, "max_live_handles": 4, "max_states": maxstates,
                           "states": g.states, "transitions": g.paths.len(), "depth_reached": g.depth_reached, "every_history_up_to_depth_covered": complete_to_depth}));
        rep.sample(json!({"model_path": g.paths[g.paths.len() * 2 / 3]}));
    }
    if !cfg!(feature = "inproc") {
        let hows: Vec<u8> = vec![0, 1, 2, 3];
        let mut efails = Vec::new();
        super::sweep(&hows, 60.0, &|_| Cfg::default(), &exec_body, &mut |_, c, out| {
            n += 1;
            match super::describe(out) {
                Ok(_) => {},
                Err(e) if e.contains("MACHINERY") => rep.machinery(e),
                Err(e) => efails.push((*c, e)),
            }
        });
        for (c, e) in efails {
            rep.fail(&format!("{} :: exec case {}", e, c), json!({"engine": "exec-case", "how": c}));
        }
        rep.set("exec_cases", json!(hows.len()));
    }
    // a sender process that dies mid-message: 'disconnected' exactly when no sender survives
    // (C12's crash machinery with the direct receive variants as observers)
    n += super::c12::run_for(rep, &[super::c12::Watch::Blocking, super::c12::Watch::Try, super::c12::Watch::Timed], "sender crash seen through recv / try_recv / try_recv_timeout");
    rep.set("model_graphs", json!(bounds));
    rep.set("model_states", json!(states));
    rep.set("model_transitions", json!(transitions));
    struct G { states: usize, paths: Vec<()>, closed: bool }
    let g = G { states: states as usize, paths: vec![(); transitions as usize], closed: all_closed };
    // (2) races
    let scs = scenarios(tier);
    let tot = e1::run_scenarios(rep, &scs, &e1::strict_judge, if tier.is_quick() { 25.0 } else { 2000.0 });
    // model_checking keys: states/transitions of both parts
    let st = rep.coverage.get("states").and_then(|v| v.as_u64()).unwrap_or(0);
    let tr = rep.coverage.get("transitions").and_then(|v| v.as_u64()).unwrap_or(0);
    let tv = rep.coverage.get("traces_validated_against_impl").and_then(|v| v.as_u64()).unwrap_or(0);
    rep.set("states", json!(st + g.states as u64));
    rep.set("transitions", json!(tr + g.paths.len() as u64));
    rep.set("traces_validated_against_impl", json!(tv + n));
    rep.set("evaluations", json!(tot.execs + n));
    rep.set("distinct_nontrivial", json!(tot.with_switch + n));
    if !g.closed {
        rep.set("exhaustive", json!(false));
        rep.set("cap_note", json!("a model state graph hit its state cap before its depth bound (see model_graphs): every state and transition found was covered, but not every history up to that depth"));
    } else {
        rep.set("exhaustive", json!(true));
        rep.set("bound_note", json!("exhaustive within the stated bounds: every history up to the depth bound of each model graph (model_graphs) and every schedule up to the deviation bound of each scenario; deeper histories are not covered"));
    }
    rep.set("rule", json!("model part: BFS over the reference model's state graph (operations clone / drop / send / embed sender / embed receiver / receive x3 variants / drop receiver / move to thread / move to forked process), canonical-state dedup; every transition is replayed from scratch on the real API as (shortest path to its source state + the operation) and every result compared; after the last operation every held receiver for which the model predicts Empty/Disconnected is probed. exec cases: the last sender handle is one received inside a message (recv / try_recv / try_recv_timeout / select), an unrelated child is exec'ed and stays alive, the handle is dropped: the receiver must be told 'disconnected'. E1 part: one evaluation = one schedule of droppers racing a blocked/timed/polling receiver; schedules are distinct by construction (the depth-first search never repeats a choice sequence) and a schedule counts as non-trivial when it contains at least one context switch; enumerated cases are distinct by construction; model paths are distinct operation sequences, each counted as non-trivial (at least one operation with its result compared)"));
    rep.assume("canonical form merges handles of the same channel in the same state (they are interchangeable) and ignores payload tags");
    rep.assume("channel families are acyclic (an endpoint only travels over a lower-numbered channel); the quantifier's 6 channels are not reached (3 quick / 4 thorough)");
}

pub fn replay(tier: Tier, v: &Value) -> i32 {
    let v = if v.get("variant").is_some() { &v["case"] } else { v };
    if v["engine"] == "crash-case" {
        return super::c12::replay(&v["case"]);
    }
    if v["engine"] == "exec-case" {
        let how = v["how"].as_u64().unwrap_or(0) as u8;
        for r in 0..2 {
            let out = crate::exec::run_one(&Cfg::default(), 60.0, &|| exec_body(&how));
            println!("replay round {}: exec case {} -> {:?}", r, how, super::describe(&out));
        }
        return 0;
    }
    if v["engine"] == "model-path" {
        let nchan = v["nchan"].as_u64().unwrap_or(3) as usize;
        let Ok(p) = serde_json::from_value::<Vec<Op>>(v["path"].clone()) else { return 2 };
        for r in 0..2 {
            let out = crate::exec::run_one(&Cfg::default(), 60.0, &|| run_path(nchan, &p, true));
            println!("replay round {}: {:?} -> {:?}", r, p, super::describe(&out));
        }
        return 0;
    }
    let mut scs = scenarios(tier);
    scs.extend(scenarios(if tier.is_quick() { Tier::Thorough } else { Tier::Quick }));
    e1::replay(&scs, v)
}

#[allow(unused)]
fn _unused(_: IpcReceiver<u32>) {}
