//! C02 — messages are delivered exactly once, whole, and in send order; concurrent sends
//! interleave only at whole-message granularity.
//! E1: all schedules with <=B deviations of 2-3 sender tasks x message-size mixes x receiver
//! behaviours; E2: forked sender processes in every sequential interleaving.
use super::e1::{self, sched_cfg, Scenario};
use super::{emit_part, sweep, Part};
use crate::common::{pattern, Report, Tier};
use crate::exec::obs;
use crate::interpose::Cfg;
use crate::sched;
use ipc_channel::ipc::{self, IpcError, IpcReceiverSet, IpcSelectionResult, IpcSender, TryRecvError};
use ipc_channel::platform::OsIpcSender;
use serde::{Deserialize, Serialize};
use serde_json::{json, Value};
use std::sync::atomic::{AtomicU64, Ordering};
use std::sync::{Arc, Mutex};

pub static CLOCK: AtomicU64 = AtomicU64::new(1);

#[derive(Clone, Copy, Debug, PartialEq, Eq, Serialize, Deserialize, Hash)]
pub enum Sz {
    /// a few bytes
    S,
    /// exactly one packet
    One,
    /// two packets
    L2,
    /// three packets
    L3,
}

impl Sz {
    pub fn len(&self) -> usize {
        let m = OsIpcSender::get_max_fragment_size();
        if m == usize::MAX {
            // in-process transport: no packets
            return match self {
                Sz::S => 24,
                Sz::One => 4560,
                Sz::L2 => 6000,
                Sz::L3 => 10000,
            };
        }
        match self {
            Sz::S => 24,
            Sz::One => m - 8, // Vec<u8> is serialised with an 8-byte length prefix
            Sz::L2 => m + 1000,
            Sz::L3 => 2 * m + 1000,
        }
    }
    pub fn all() -> [Sz; 4] {
        [Sz::S, Sz::One, Sz::L2, Sz::L3]
    }
}

pub fn payload(sender: u32, seq: u32, len: usize) -> Vec<u8> {
    let len = len.max(16);
    let mut v = Vec::with_capacity(len);
    v.extend_from_slice(&sender.to_le_bytes());
    v.extend_from_slice(&seq.to_le_bytes());
    v.extend_from_slice(&(len as u64).to_le_bytes());
    v.extend_from_slice(&pattern(len - 16, sender as u64 * 1000 + seq as u64));
    v
}

/// validate a received payload: returns (sender, seq)
pub fn validate(v: &[u8]) -> Result<(u32, u32), String> {
    if v.len() < 16 {
        return Err(format!("received a {}-byte message, shorter than any that was sent", v.len()));
    }
    let sender = u32::from_le_bytes(v[0..4].try_into().unwrap());
    let seq = u32::from_le_bytes(v[4..8].try_into().unwrap());
    let len = u64::from_le_bytes(v[8..16].try_into().unwrap()) as usize;
    if len != v.len() {
        return Err(format!("message of sender {} seq {} says {} bytes but {} arrived", sender, seq, len, v.len()));
    }
    let exp = payload(sender, seq, len);
    if exp != v {
        let p = exp.iter().zip(v).position(|(a, b)| a != b);
        return Err(format!("payload of sender {} seq {} ({} bytes) is mixed/corrupt from offset {:?}", sender, seq, len, p));
    }
    Ok((sender, seq))
}

#[derive(Clone, Copy, Debug, PartialEq, Eq, Serialize, Deserialize)]
pub enum RecvMode {
    Blocking,
    Polling,
    Set,
    Delayed,
    /// try_recv_timeout in a loop (the timer is an explicit scheduling alternative)
    TimedPolling,
}

#[derive(Clone, Debug, Serialize, Deserialize)]
pub struct P {
    pub seqs: Vec<Vec<Sz>>,
    /// each sender holds its own descriptor (handle received through a channel), like a process
    pub transferred: bool,
    pub mode: RecvMode,
}

impl P {
    fn name(&self) -> String {
        format!("{:?}/{}/{:?}", self.seqs, if self.transferred { "own-fd" } else { "clone" }, self.mode)
    }
}

#[derive(Clone, Debug)]
pub struct SendRec {
    pub sender: u32,
    pub seq: u32,
    pub begin: u64,
    pub ret: u64,
    pub ok: bool,
}

pub fn check_delivery(sent: &[SendRec], got: &[(u32, u32)]) -> Result<(), String> {
    // exactly once
    for s in sent.iter().filter(|s| s.ok) {
        let n = got.iter().filter(|g| **g == (s.sender, s.seq)).count();
        if n != 1 {
            return Err(format!("message (sender {}, seq {}) whose send returned Ok was delivered {} times", s.sender, s.seq, n));
        }
    }
    for g in got {
        if !sent.iter().any(|s| (s.sender, s.seq) == *g) {
            return Err(format!("a message (sender {}, seq {}) was delivered that nobody sent", g.0, g.1));
        }
    }
    // order: ret(a) < begin(b) => a before b
    let pos = |k: (u32, u32)| got.iter().position(|g| *g == k);
    for a in sent.iter().filter(|s| s.ok) {
        for b in sent.iter().filter(|s| s.ok) {
            if a.ret < b.begin {
                if let (Some(pa), Some(pb)) = (pos((a.sender, a.seq)), pos((b.sender, b.seq))) {
                    if pa > pb {
                        return Err(format!(
                            "send of (sender {}, seq {}) returned before send of (sender {}, seq {}) began, but it was delivered after it (delivery order {:?})",
                            a.sender, a.seq, b.sender, b.seq, got
                        ));
                    }
                }
            }
        }
    }
    Ok(())
}

fn body(p: &P) -> Result<(), String> {
    let (tx, rx) = ipc::channel::<Vec<u8>>().map_err(|e| e.to_string())?;
    let mut handles: Vec<IpcSender<Vec<u8>>> = Vec::new();
    for _ in 0..p.seqs.len() {
        if p.transferred {
            let (ctx, crx) = ipc::channel::<IpcSender<Vec<u8>>>().map_err(|e| e.to_string())?;
            ctx.send(tx.clone()).map_err(|e| e.to_string())?;
            handles.push(crx.recv().map_err(|e| format!("{:?}", e))?);
        } else {
            handles.push(tx.clone());
        }
    }
    drop(tx);
    let log: Arc<Mutex<Vec<SendRec>>> = Arc::new(Mutex::new(Vec::new()));
    let total: usize = p.seqs.iter().map(|s| s.len()).sum();
    let mut ths = Vec::new();
    for (i, h) in handles.into_iter().enumerate() {
        let seq = p.seqs[i].clone();
        let log = log.clone();
        ths.push(std::thread::spawn(move || {
            for (k, sz) in seq.iter().enumerate() {
                let data = payload(i as u32, k as u32, sz.len());
                e1::inproc_point();
                let begin = CLOCK.fetch_add(1, Ordering::SeqCst);
                let r = h.send(data);
                let ret = CLOCK.fetch_add(1, Ordering::SeqCst);
                log.lock().unwrap().push(SendRec { sender: i as u32, seq: k as u32, begin, ret, ok: r.is_ok() });
            }
            drop(h);
        }));
    }
    let mut got: Vec<(u32, u32)> = Vec::new();
    e1::inproc_point();
    match p.mode {
        RecvMode::Blocking | RecvMode::Delayed => {
            if p.mode == RecvMode::Delayed {
                sched::settle();
            }
            loop {
                match rx.recv() {
                    Ok(v) => got.push(validate(&v)?),
                    Err(IpcError::Disconnected) => break,
                    Err(e) => return Err(format!("recv failed: {:?}", e)),
                }
                if got.len() > total {
                    return Err(format!("more messages delivered ({}) than sent ({})", got.len(), total));
                }
            }
        },
        RecvMode::Polling => loop {
            match rx.try_recv() {
                Ok(v) => got.push(validate(&v)?),
                Err(TryRecvError::Empty) => sched::vyield(),
                Err(TryRecvError::IpcError(IpcError::Disconnected)) => break,
                Err(e) => return Err(format!("try_recv failed: {:?}", e)),
            }
            if got.len() > total {
                return Err(format!("more messages delivered ({}) than sent ({})", got.len(), total));
            }
        },
        RecvMode::TimedPolling => loop {
            match rx.try_recv_timeout(std::time::Duration::from_millis(15)) {
                Ok(v) => got.push(validate(&v)?),
                Err(TryRecvError::Empty) => sched::vyield(),
                Err(TryRecvError::IpcError(IpcError::Disconnected)) => break,
                Err(e) => return Err(format!("try_recv_timeout failed: {:?}", e)),
            }
            if got.len() > total {
                return Err(format!("more messages delivered ({}) than sent ({})", got.len(), total));
            }
        },
        RecvMode::Set => {
            let mut set = IpcReceiverSet::new().map_err(|e| e.to_string())?;
            let id = set.add(rx).map_err(|e| e.to_string())?;
            let mut closed = false;
            while !closed {
                for ev in set.select().map_err(|e| format!("select failed: {}", e))? {
                    match ev {
                        IpcSelectionResult::MessageReceived(i, m) => {
                            if i != id {
                                return Err(format!("event tagged {} for the only member {}", i, id));
                            }
                            if closed {
                                return Err("message reported after the closed event".into());
                            }
                            let v: Vec<u8> = m.to().map_err(|e| format!("decode: {}", e))?;
                            got.push(validate(&v)?);
                        },
                        IpcSelectionResult::ChannelClosed(i) => {
                            if i != id || closed {
                                return Err("spurious closed event".into());
                            }
                            closed = true;
                        },
                    }
                }
                if got.len() > total {
                    return Err(format!("more messages delivered ({}) than sent ({})", got.len(), total));
                }
            }
        },
    }
    for t in ths {
        t.join().map_err(|_| "sender thread panicked".to_string())?;
    }
    let sent = log.lock().unwrap().clone();
    if sent.len() != total {
        return Err(format!("disconnection reported while senders were still sending ({} of {} sends done)", sent.len(), total));
    }
    if let Some(f) = sent.iter().find(|s| !s.ok) {
        return Err(format!("send (sender {}, seq {}) failed on a healthy channel", f.sender, f.seq));
    }
    obs(format!("{:?}", got));
    check_delivery(&sent, &got)
}

pub fn scenarios(tier: Tier) -> Vec<Scenario> {
    scenario_params(tier).into_iter().map(|(p, bound)| {
        let name = p.name();
        let mut cfg = sched_cfg();
        // wide scenarios (more than three senders): every non-default choice counts as a deviation
        cfg.strict_deviations = p.seqs.len() > 3;
        // in-process build: a blocking receiver is also explored up to parking (not the polling ones)
        // (two senders only: with three the free choices at every yield already multiply)
        cfg.yield_alts = cfg!(feature = "inproc") && p.seqs.len() <= 2 && !matches!(p.mode, RecvMode::Polling | RecvMode::TimedPolling);
        Scenario::new(name, cfg, bound, move || body(&p))
    }).collect()
}

pub fn scenario_params(tier: Tier) -> Vec<(P, u32)> {
    let mut v: Vec<(P, u32)> = Vec::new();
    let mut add = |p: P, bound: u32| {
        v.push((p, bound));
    };
    use RecvMode::*;
    use Sz::*;
    let modes = [Blocking, Polling, Set, Delayed];
    if tier.is_quick() {
        let mixes: Vec<Vec<Vec<Sz>>> = vec![
            vec![vec![L2, S], vec![L3, S]],
            vec![vec![S, L2], vec![L2]],
            vec![vec![One, S], vec![S, L3]],
        ];
        for (i, m) in mixes.iter().enumerate() {
            for (j, mode) in modes.iter().enumerate() {
                add(P { seqs: m.clone(), transferred: (i + j) % 2 == 1, mode: *mode }, 2);
            }
        }
        add(P { seqs: vec![vec![L2, S], vec![L3]], transferred: false, mode: TimedPolling }, 2);
        // many senders, few deviations
        add(P { seqs: vec![vec![S], vec![L2], vec![S], vec![L3], vec![S, S], vec![L2]], transferred: false, mode: Blocking }, 1);
        add(P { seqs: vec![vec![L2]; 8], transferred: true, mode: Set }, 1);
        add(P { seqs: vec![vec![L2], vec![L2], vec![S, S]], transferred: false, mode: Blocking }, 1);
        add(P { seqs: vec![vec![L3], vec![S], vec![L2]], transferred: true, mode: Set }, 1);
    } else {
        // every pair of two-message sequences over the four sizes, both handle kinds, all modes
        let seq2: Vec<Vec<Sz>> = Sz::all().iter().flat_map(|a| Sz::all().iter().map(move |b| vec![*a, *b]).collect::<Vec<_>>()).collect();
        for (i, a) in seq2.iter().enumerate() {
            for (j, b) in seq2.iter().enumerate() {
                if j < i {
                    continue; // symmetric
                }
                for (k, mode) in modes.iter().enumerate() {
                    add(P { seqs: vec![a.clone(), b.clone()], transferred: (i + j + k) % 2 == 0, mode: *mode }, 2);
                }
            }
        }
        for (i, a) in seq2.iter().enumerate() {
            add(P { seqs: vec![a.clone(), seq2[(i * 7 + 3) % seq2.len()].clone()], transferred: i % 2 == 0, mode: TimedPolling }, 2);
        }
        // the quick tier's mixes one deviation deeper, and one small mix at four deviations
        for m in [vec![vec![L2, S], vec![L3, S]], vec![vec![S, L2], vec![L2]], vec![vec![One, S], vec![S, L3]]] {
            for (j, mode) in [Blocking, Polling, Set, Delayed, TimedPolling].iter().enumerate() {
                add(P { seqs: m.clone(), transferred: j % 2 == 1, mode: *mode }, 3);
            }
        }
        add(P { seqs: vec![vec![S], vec![L2]], transferred: false, mode: Blocking }, 4);
        add(P { seqs: vec![vec![S], vec![L2], vec![S], vec![L3], vec![S, S], vec![L2]], transferred: false, mode: Blocking }, 2);
        add(P { seqs: vec![vec![L2, S]; 8], transferred: true, mode: Polling }, 1);
        add(P { seqs: vec![vec![L2], vec![S]], transferred: true, mode: Set }, 4);
        for mode in modes {
            add(P { seqs: vec![vec![L2], vec![L2], vec![S, S]], transferred: true, mode }, 2);
            add(P { seqs: vec![vec![L3, One], vec![S], vec![L2]], transferred: false, mode }, 2);
        }
    }
    v
}

// ---------------------------------------------------------------------------
// E3: the abstract packet-protocol model, bound to the implementation through real traces

fn packets_of(sz: Sz) -> u8 {
    match sz {
        Sz::S | Sz::One => 1,
        Sz::L2 => 2,
        Sz::L3 => 3,
    }
}

pub struct E3Stats {
    pub model_states: u64,
    pub model_transitions: u64,
    pub traces_validated: u64,
    pub edges_total: u64,
    pub edges_covered: u64,
    pub drift: Option<String>,
    pub model_violations: Vec<String>,
    pub directed_runs: u64,
    pub directed_edges_total: u64,
    pub directed_edges_covered: u64,
    pub directed_capped: bool,
}

fn e3(tier: Tier, rep: &mut Report) -> E3Stats {
    use crate::explore::{explore, ExploreCfg};
    use crate::pmodel::{self, Config};
    use std::cell::RefCell;
    let mut st = E3Stats { model_states: 0, model_transitions: 0, traces_validated: 0, edges_total: 0, edges_covered: 0, drift: None, model_violations: vec![], directed_runs: 0, directed_edges_total: 0, directed_edges_covered: 0, directed_capped: false };
    let bound = if tier.is_quick() { 1 } else { 2 };
    let mut seen_free: std::collections::HashSet<String> = Default::default();
    for (p, _) in scenario_params(tier) {
        // thorough: one free-exploration pass per size mix and receiver mode is enough for binding
        if !tier.is_quick() && !seen_free.insert(format!("{:?}/{:?}", p.seqs, p.mode)) {
            continue;
        }
        if p.seqs.len() > 3 {
            continue; // the packet model is searched for <= 3 senders (the quantifier's bound)
        }
        let cfg = Config { packets: p.seqs.iter().map(|s| s.iter().map(|z| packets_of(*z)).collect()).collect() };
        let g = pmodel::explore(&cfg);
        st.model_states += g.states as u64;
        st.model_transitions += g.transitions as u64;
        st.edges_total += g.edges.len() as u64;
        st.model_violations.extend(g.violations.iter().cloned());
        let covered: RefCell<std::collections::HashSet<(u64, pmodel::PAct)>> = RefCell::new(Default::default());
        let nval = RefCell::new(0u64);
        let drift: RefCell<Option<String>> = RefCell::new(None);
        let mut base = sched_cfg();
        base.trace = true;
        let mut ec = ExploreCfg::new(base, bound);
        ec.determinism_every = 0;
        ec.max_wall_s = if tier.is_quick() { 4.0 } else { 20.0 };
        let pp = p.clone();
        let stats = explore(&ec, &move || body(&pp), &|o| {
            e1::strict_judge(o)?;
            let r = o.result.as_ref().unwrap();
            match pmodel::validate_trace(&cfg, &r.trace) {
                Ok((edges, delivered)) => {
                    *nval.borrow_mut() += 1;
                    let mut c = covered.borrow_mut();
                    for e in edges {
                        c.insert(e);
                    }
                    let want = format!("{:?}", delivered.iter().map(|(s, m)| (*s as u32, *m as u32)).collect::<Vec<_>>());
                    if r.obs.last().map(|x| x != &want).unwrap_or(true) {
                        return Err(format!("the receiver observed {:?} but the packet model, following the same system-call trace, delivers {}", r.obs.last(), want));
                    }
                    Ok(())
                },
                Err(e) => {
                    // the implementation no longer follows the modelled packet protocol: not a
                    // verdict by itself (E1's oracle on the same executions is)
                    let mut d = drift.borrow_mut();
                    if d.is_none() {
                        *d = Some(e);
                    }
                    Ok(())
                },
            }
        });
        for m in &stats.machinery_errors {
            rep.machinery(format!("E3 pass, scenario {}: {}", p.name(), m));
        }
        for v in &stats.violations {
            rep.fail(&format!("{:?} :: E3 pass of scenario {}", v.status, p.name()), json!({"engine": "E1", "scenario": p.name(), "choices": v.choices}));
        }
        st.traces_validated += *nval.borrow();
        st.edges_covered += covered.borrow().iter().filter(|e| g.edges.contains(e)).count() as u64;
        if st.drift.is_none() {
            st.drift = drift.borrow().clone();
        }
    }
    // model subset-of impl: every transition of the model graph (for the clone / blocking-receiver
    // variant of each size mix) is covered by a model path that is replayed on the implementation
    // under the scheduler's directed mode; the real trace must map back onto exactly that path
    let mut seen_mix: std::collections::HashSet<String> = Default::default();
    for (p, _) in scenario_params(tier) {
        if (p.seqs.len() > 2 && tier.is_quick()) || p.seqs.len() > 3 {
            continue;
        }
        if !seen_mix.insert(format!("{:?}", p.seqs)) {
            continue;
        }
        let cfg = Config { packets: p.seqs.iter().map(|s| s.iter().map(|z| packets_of(*z)).collect()).collect() };
        let g = pmodel::explore(&cfg);
        let sp = pmodel::shortest_paths(&cfg);
        let mut covered: std::collections::HashSet<(u64, pmodel::PAct)> = Default::default();
        let pp = P { seqs: p.seqs.clone(), transferred: false, mode: RecvMode::Blocking };
        let mut edges: Vec<(u64, pmodel::PAct)> = g.edges.iter().copied().collect();
        edges.sort_by_key(|(h, a)| (sp.get(h).map(|x| x.1.len()).unwrap_or(0), *h, format!("{:?}", a)));
        let t0 = std::time::Instant::now();
        let cap = if tier.is_quick() { 6.0 } else { 60.0 };
        let mut idx = 0;
        while idx < edges.len() {
            if t0.elapsed().as_secs_f64() > cap {
                st.directed_capped = true;
                break;
            }
            // a wave of still-uncovered edges, replayed in parallel
            let mut wave: Vec<(Vec<pmodel::PAct>, Vec<u8>)> = Vec::new();
            while idx < edges.len() && wave.len() < 2 * crate::exec::default_workers() {
                let (h, a) = edges[idx];
                idx += 1;
                if covered.contains(&(h, a)) {
                    continue;
                }
                let Some((src, path0)) = sp.get(&h) else { continue };
                let mut path = path0.clone();
                path.push(a);
                let Ok(next) = cfg.step(src, a) else { continue };
                pmodel::complete(&cfg, &next, &mut path);
                let d = pmodel::directive_of(&path);
                wave.push((path, d));
            }
            let mut results: Vec<(usize, crate::exec::Outcome)> = Vec::new();
            sweep(
                &wave,
                30.0,
                &|w| {
                    let mut c = sched_cfg();
                    c.trace = true;
                    c.directive = w.1.clone();
                    c
                },
                &|_| body(&pp),
                &mut |i, _, out| results.push((i, out.clone())),
            );
            for (i, out) in results {
                let path = &wave[i].0;
                st.directed_runs += 1;
                match e1::strict_judge(&out) {
                    Ok(()) => {},
                    Err(e) if e.starts_with("MACHINERY") => {
                        if st.drift.is_none() {
                            st.drift = Some(format!("directed replay of a model path failed: {}", e));
                        }
                        continue;
                    },
                    Err(e) => {
                        rep.fail(&format!("{} :: directed replay of model path {:?} on mix {:?}", e, path, p.seqs), json!({"engine": "E3-directed", "seqs": p.seqs, "path": format!("{:?}", path), "directive": wave[i].1}));
                        continue;
                    },
                }
                let r = out.result.as_ref().unwrap();
                match pmodel::validate_trace(&cfg, &r.trace) {
                    Ok((es, _)) => {
                        let real: Vec<pmodel::PAct> = es.iter().map(|(_, a)| *a).collect();
                        if pmodel::project(&real) != pmodel::project(path) {
                            if st.drift.is_none() {
                                st.drift = Some(format!("directed replay followed {:?} instead of the model path {:?}", pmodel::project(&real), pmodel::project(path)));
                            }
                            continue;
                        }
                        st.traces_validated += 1;
                        for e in es {
                            covered.insert(e);
                        }
                    },
                    Err(e) => {
                        if st.drift.is_none() {
                            st.drift = Some(e);
                        }
                    },
                }
            }
        }
        st.directed_edges_total += g.edges.len() as u64;
        st.directed_edges_covered += covered.iter().filter(|e| g.edges.contains(e)).count() as u64;
    }
    if !tier.is_quick() {
        // the quantifier's largest configuration, model only
        let g = pmodel::explore(&Config { packets: vec![vec![3, 3], vec![3, 2], vec![2, 3]] });
        st.model_states += g.states as u64;
        st.model_transitions += g.transitions as u64;
        st.model_violations.extend(g.violations);
    }
    st
}

// ---------------------------------------------------------------------------
// E2: real forked sender processes, every sequential interleaving of two sequences

#[derive(Clone, Debug, Serialize, Deserialize)]
pub struct ProcCase {
    pub seqs: Vec<Vec<Sz>>,
    /// order[i] = which process performs the i-th send
    pub order: Vec<usize>,
    /// receive after every send (eager) or only at the end (delayed)
    pub eager: bool,
    /// every send is preceded, in the same process, by a send of another message to a channel
    /// whose receiver is gone (it fails); nothing of it may show up in the stream
    #[serde(default)]
    pub failed_before: bool,
}

fn proc_body(c: &ProcCase) -> Result<(), String> {
    let (tx, rx) = ipc::channel::<Vec<u8>>().map_err(|e| e.to_string())?;
    let mut ctl: Vec<(i32, i32, i32)> = Vec::new(); // (pid, cmd write fd, ack read fd)
    for (i, seq) in c.seqs.iter().enumerate() {
        unsafe {
            let mut c2p = [0i32; 2];
            let mut p2c = [0i32; 2];
            libc::pipe(c2p.as_mut_ptr());
            libc::pipe(p2c.as_mut_ptr());
            let pid = libc::fork();
            if pid == 0 {
                libc::close(p2c[1]);
                libc::close(c2p[0]);
                let h = tx.clone();
                let dead = if c.failed_before {
                    ipc::channel::<Vec<u8>>().ok().map(|(t, r)| {
                        drop(r);
                        t
                    })
                } else {
                    None
                };
                for (k, sz) in seq.iter().enumerate() {
                    let mut b = [0u8; 1];
                    if libc::read(p2c[0], b.as_mut_ptr() as *mut _, 1) != 1 {
                        libc::_exit(3);
                    }
                    if let Some(d) = &dead {
                        if d.send(payload(90 + i as u32, k as u32, 300)).is_ok() {
                            libc::_exit(4);
                        }
                    }
                    let r = h.send(payload(i as u32, k as u32, sz.len()));
                    let a = [if r.is_ok() { 1u8 } else { 0u8 }];
                    libc::write(c2p[1], a.as_ptr() as *const _, 1);
                }
                libc::_exit(0);
            }
            libc::close(p2c[0]);
            libc::close(c2p[1]);
            ctl.push((pid, p2c[1], c2p[0]));
        }
    }
    drop(tx);
    let mut next = vec![0u32; c.seqs.len()];
    let mut expect: Vec<(u32, u32)> = Vec::new();
    let mut got: Vec<(u32, u32)> = Vec::new();
    for &who in &c.order {
        unsafe {
            let b = [1u8];
            libc::write(ctl[who].1, b.as_ptr() as *const _, 1);
            let mut a = [0u8; 1];
            if libc::read(ctl[who].2, a.as_mut_ptr() as *mut _, 1) != 1 || a[0] != 1 {
                return Err(format!("send in process {} failed", who));
            }
        }
        expect.push((who as u32, next[who]));
        next[who] += 1;
        if c.eager {
            let v = rx.recv().map_err(|e| format!("recv: {:?}", e))?;
            got.push(validate(&v)?);
        }
    }
    for (pid, w, r) in &ctl {
        unsafe {
            libc::close(*w);
            libc::close(*r);
            let mut st = 0;
            libc::waitpid(*pid, &mut st, 0);
        }
    }
    loop {
        match rx.recv() {
            Ok(v) => got.push(validate(&v)?),
            Err(IpcError::Disconnected) => break,
            Err(e) => return Err(format!("recv: {:?}", e)),
        }
        if got.len() > expect.len() {
            return Err("more messages than sent".into());
        }
    }
    if got != expect {
        return Err(format!("forked senders: delivery order {:?} differs from the (sequential) send order {:?}", got, expect));
    }
    Ok(())
}

// ---------------------------------------------------------------------------
// E2g: forked sender processes interleaved at *packet* granularity. Each sender process stops at
// a gate before every packet transmission (sendmsg / send); the orchestrating process releases
// the gates in an enumerated order, one transmission at a time. All interleavings of the two
// processes' packet sequences are enumerated.

#[derive(Clone, Debug, Serialize, Deserialize)]
pub struct GateCase {
    pub seqs: Vec<Vec<Sz>>,
    /// which process performs the i-th packet transmission
    pub order: Vec<usize>,
    /// a multi-packet message is sent (and received) on the handle before the processes are forked
    pub warmup: bool,
}

fn packets(sz: Sz) -> usize {
    match sz {
        Sz::S | Sz::One => 1,
        Sz::L2 => 2,
        Sz::L3 => 3,
    }
}

fn gate_body(c: &GateCase) -> Result<(), String> {
    let (tx, rx) = ipc::channel::<Vec<u8>>().map_err(|e| e.to_string())?;
    if c.warmup {
        tx.send(payload(9, 9, Sz::L2.len())).map_err(|e| e.to_string())?;
        let v = rx.recv().map_err(|e| format!("{:?}", e))?;
        validate(&v)?;
    }
    let mut ctl: Vec<(i32, i32, i32)> = Vec::new();
    for (i, seq) in c.seqs.iter().enumerate() {
        unsafe {
            let mut c2p = [0i32; 2];
            let mut p2c = [0i32; 2];
            libc::pipe(c2p.as_mut_ptr());
            libc::pipe(p2c.as_mut_ptr());
            let pid = libc::fork();
            if pid == 0 {
                crate::interpose::after_fork_in_child();
                libc::close(p2c[1]);
                libc::close(c2p[0]);
                for (_, w, r) in &ctl {
                    libc::close(*w);
                    libc::close(*r);
                }
                crate::interpose::set_gate(p2c[0], c2p[1]);
                crate::interpose::arm();
                let mut ok = true;
                for (k, sz) in seq.iter().enumerate() {
                    ok &= tx.send(payload(i as u32, k as u32, sz.len())).is_ok();
                }
                crate::interpose::disarm();
                let d = [if ok { b'D' } else { b'E' }];
                libc::write(c2p[1], d.as_ptr() as *const _, 1);
                libc::_exit(0);
            }
            libc::close(p2c[0]);
            libc::close(c2p[1]);
            ctl.push((pid, p2c[1], c2p[0]));
        }
    }
    drop(tx);
    let read1 = |fd: i32| -> Result<u8, String> {
        let mut b = [0u8; 1];
        let n = unsafe { libc::read(fd, b.as_mut_ptr() as *mut _, 1) };
        if n == 1 {
            Ok(b[0])
        } else {
            Err("a sender process died".into())
        }
    };
    // each process runs up to its first gate
    let mut pending: Vec<u8> = Vec::new();
    for (_, _, r) in &ctl {
        pending.push(read1(*r)?);
    }
    // which message does each transmission belong to?  (first/last packet positions give the
    // returned-before-began pairs)
    let mut sent_pk = vec![0usize; c.seqs.len()];
    let mut first_pos: Vec<Vec<usize>> = c.seqs.iter().map(|s| vec![usize::MAX; s.len()]).collect();
    let mut last_pos: Vec<Vec<usize>> = c.seqs.iter().map(|s| vec![0; s.len()]).collect();
    for (pos, &who) in c.order.iter().enumerate() {
        if pending[who] != b'T' {
            return Err(format!("MACHINERY: process {} is not at a gate (state {:?}) at step {}", who, pending[who] as char, pos));
        }
        // message index of this packet
        let mut k = 0;
        let mut acc = 0;
        for (mi, sz) in c.seqs[who].iter().enumerate() {
            acc += packets(*sz);
            if sent_pk[who] < acc {
                k = mi;
                break;
            }
        }
        sent_pk[who] += 1;
        first_pos[who][k] = first_pos[who][k].min(pos);
        last_pos[who][k] = pos;
        unsafe {
            let g = [b'g'];
            libc::write(ctl[who].1, g.as_ptr() as *const _, 1);
        }
        pending[who] = read1(ctl[who].2)?;
    }
    for (i, p) in pending.iter().enumerate() {
        if *p != b'D' {
            return Err(if *p == b'E' { format!("a send in process {} failed on a healthy channel", i) } else { format!("MACHINERY: process {} made more transmissions than planned", i) });
        }
    }
    for (pid, w, r) in &ctl {
        unsafe {
            libc::close(*w);
            libc::close(*r);
            let mut st = 0;
            libc::waitpid(*pid, &mut st, 0);
        }
    }
    let mut got: Vec<(u32, u32)> = Vec::new();
    let total: usize = c.seqs.iter().map(|s| s.len()).sum();
    loop {
        match rx.recv() {
            Ok(v) => got.push(validate(&v)?),
            Err(IpcError::Disconnected) => break,
            Err(e) => return Err(format!("recv: {:?}", e)),
        }
        if got.len() > total {
            return Err("more messages than sent".into());
        }
    }
    let mut sent = Vec::new();
    for (i, s) in c.seqs.iter().enumerate() {
        for k in 0..s.len() {
            sent.push(SendRec { sender: i as u32, seq: k as u32, begin: 2 * first_pos[i][k] as u64, ret: 2 * last_pos[i][k] as u64 + 1, ok: true });
        }
    }
    obs(format!("{:?}", got));
    check_delivery(&sent, &got)
}

fn interleavings(counts: &[usize]) -> Vec<Vec<usize>> {
    fn rec(left: &mut Vec<usize>, cur: &mut Vec<usize>, out: &mut Vec<Vec<usize>>) {
        if left.iter().all(|x| *x == 0) {
            out.push(cur.clone());
            return;
        }
        for i in 0..left.len() {
            if left[i] > 0 {
                left[i] -= 1;
                cur.push(i);
                rec(left, cur, out);
                cur.pop();
                left[i] += 1;
            }
        }
    }
    let mut out = Vec::new();
    rec(&mut counts.to_vec(), &mut Vec::new(), &mut out);
    out
}

fn gate_cases(tier: Tier) -> Vec<GateCase> {
    use Sz::*;
    let mixes: Vec<Vec<Vec<Sz>>> = if tier.is_quick() {
        vec![vec![vec![L2], vec![L2]], vec![vec![L3], vec![L2, S]], vec![vec![S, L2], vec![L2, S]]]
    } else {
        let seqs: Vec<Vec<Sz>> = vec![vec![L2], vec![L3], vec![S, L2], vec![L2, S], vec![L2, L2], vec![L3, S], vec![One, L2], vec![S, L3]];
        let mut m = Vec::new();
        for (i, a) in seqs.iter().enumerate() {
            for b in seqs.iter().skip(i) {
                m.push(vec![a.clone(), b.clone()]);
            }
        }
        m.push(vec![vec![L2], vec![L2], vec![L2]]);
        m
    };
    let mut v = Vec::new();
    for m in mixes {
        let counts: Vec<usize> = m.iter().map(|s| s.iter().map(|z| packets(*z)).sum()).collect();
        for order in interleavings(&counts) {
            for warmup in [false, true] {
                v.push(GateCase { seqs: m.clone(), order: order.clone(), warmup });
            }
        }
    }
    v
}

fn proc_cases(tier: Tier) -> Vec<ProcCase> {
    use Sz::*;
    let mixes: Vec<Vec<Vec<Sz>>> = if tier.is_quick() {
        vec![vec![vec![L2, S], vec![S, L3]], vec![vec![One, L2], vec![L2, S]]]
    } else {
        let seq2: Vec<Vec<Sz>> = Sz::all().iter().flat_map(|a| Sz::all().iter().map(move |b| vec![*a, *b]).collect::<Vec<_>>()).collect();
        let mut m = Vec::new();
        for a in &seq2 {
            for b in &seq2 {
                m.push(vec![a.clone(), b.clone()]);
            }
        }
        m
    };
    let orders: Vec<Vec<usize>> = vec![
        vec![0, 0, 1, 1],
        vec![0, 1, 0, 1],
        vec![0, 1, 1, 0],
        vec![1, 0, 0, 1],
        vec![1, 0, 1, 0],
        vec![1, 1, 0, 0],
    ];
    let mut out = Vec::new();
    for m in mixes {
        for o in &orders {
            for eager in [false, true] {
                for failed_before in [false, true] {
                    out.push(ProcCase { seqs: m.clone(), order: o.clone(), eager, failed_before });
                }
            }
        }
    }
    out
}

pub fn run(tier: Tier, part_only: bool) -> i32 {
    super::run_with_inproc("C02", tier, part_only, "model_checking", &run_all)
}

fn run_all(rep: &mut Report, tier: Tier) {
    let scs = scenarios(tier);
    let budget = if tier.is_quick() { 35.0 } else { 3000.0 };
    let tot = e1::run_scenarios(rep, &scs, &e1::strict_judge, budget);
    if cfg!(feature = "inproc") {
        // in-process channels: threads only (no packets, no processes): the schedules above are all
        rep.set("deviation_bound_max", json!(tot.max_bound));
        rep.set("evaluations", json!(tot.execs));
        rep.set("distinct_nontrivial", json!(tot.with_switch));
        return;
    }
    // forked processes
    let pcs = proc_cases(tier);
    let mut nproc = 0u64;
    let cfg = Cfg { fake_sndbuf: Some(4608), ..Default::default() };
    let mut fails = Vec::new();
    sweep(&pcs, 60.0, &|_| cfg.clone(), &proc_body, &mut |_, c, out| {
        nproc += 1;
        if let Err(e) = super::describe(out) {
            fails.push((c.clone(), e));
        }
    });
    for (c, e) in fails {
        rep.fail(&format!("{} :: {:?}", e, c), json!({"engine": "E2-proc", "case": c}));
    }
    let gcs = gate_cases(tier);
    let mut ngate = 0u64;
    let mut gfails = Vec::new();
    sweep(&gcs, 60.0, &|_| cfg.clone(), &gate_body, &mut |_, c, out| {
        ngate += 1;
        match super::describe(out) {
            Ok(_) => {},
            Err(e) if e.contains("MACHINERY") => rep.machinery(format!("{} :: {:?}", e, c)),
            Err(e) => gfails.push((c.clone(), e)),
        }
    });
    for (c, e) in gfails {
        rep.fail(&format!("{} :: {:?}", e, c), json!({"engine": "E2-gate", "case": c}));
    }
    rep.set("forked_process_packet_interleavings", json!(ngate));
    rep.sample(json!({"forked_process_packet_interleaving": gcs[gcs.len() / 2]}));
    rep.set("forked_process_cases", json!(nproc));
    rep.sample(json!({"forked_process_case": pcs[pcs.len() / 2]}));
    let e3s = e3(tier, rep);
    for v in &e3s.model_violations {
        rep.fail(&format!("the packet-protocol model itself violates its invariants: {}", v), json!({"engine": "E3-model"}));
    }
    if let Some(d) = &e3s.drift {
        println!("MODEL-DRIFT property=C02 the implementation's system-call traces no longer map onto the packet-protocol model ({}); E3 numbers are not a statement about this tree, the verdict is E1's", d);
        rep.set("e3_model_drift", json!(d));
    }
    rep.set("e3_packet_model", json!({"model_states": e3s.model_states, "model_transitions": e3s.model_transitions,
        "real_traces_accepted_by_model": e3s.traces_validated, "model_edges_total": e3s.edges_total, "model_edges_exercised_by_free_exploration": e3s.edges_covered,
        "directed_replays_of_model_paths": e3s.directed_runs, "directed_model_edges_total": e3s.directed_edges_total, "directed_model_edges_covered": e3s.directed_edges_covered, "directed_capped": e3s.directed_capped}));
    rep.add("states", e3s.model_states);
    rep.add("transitions", e3s.model_transitions);
    rep.add("traces_validated_against_impl", e3s.traces_validated);
    rep.set("deviation_bound_min", json!(tot.min_bound));
    rep.set("deviation_bound_max", json!(tot.max_bound));
    rep.set("evaluations", json!(tot.execs + nproc + ngate));
    rep.set("distinct_nontrivial", json!(tot.with_switch + nproc + ngate));
    rep.set("rule", json!("one evaluation = one complete schedule of a scenario (sender sequences x handle kind x receiver behaviour) executed on the real code, or one forked-process interleaving; distinct by construction (DFS never repeats a choice sequence); non-trivial = contains at least one context switch"));
    rep.assume("scheduling points are system calls and futex waits; user-space-only steps between them are atomic (data-race-freedom of the transport: it communicates only through system calls)");
    rep.assume("a thread holding its own descriptor stands in for a process inside E1; real forked processes are orchestrated sequentially");
    rep.assume("the Linux kernel running here provides per-socket FIFO order and packet boundaries on SOCK_SEQPACKET (exercised, not modelled)");
    let _ = emit_part;
    let _ = Part::new;
}

pub fn replay(tier: Tier, v: &Value) -> i32 {
    let v = if v.get("variant").is_some() { &v["case"] } else { v };
    if v["engine"] == "E2-gate" {
        let Ok(c) = serde_json::from_value::<GateCase>(v["case"].clone()) else { return 2 };
        let cfg = Cfg { fake_sndbuf: Some(4608), ..Default::default() };
        for r in 0..2 {
            let out = crate::exec::run_one(&cfg, 60.0, &|| gate_body(&c));
            println!("replay round {}: {:?} -> {:?}", r, c, super::describe(&out));
        }
        return 0;
    }
    if v["engine"] == "E2-proc" {
        let Ok(c) = serde_json::from_value::<ProcCase>(v["case"].clone()) else { return 2 };
        let cfg = Cfg { fake_sndbuf: Some(4608), ..Default::default() };
        for r in 0..2 {
            let out = crate::exec::run_one(&cfg, 60.0, &|| proc_body(&c));
            println!("replay round {}: {:?}", r, super::describe(&out));
        }
        return 0;
    }
    let mut scs = scenarios(tier);
    scs.extend(scenarios(if tier.is_quick() { Tier::Thorough } else { Tier::Quick }));
    e1::replay(&scs, v)
}
