//! C10 — non-blocking and timed receives never block, miss a message, or poison the receiver.
//! E2: every call sequence up to a length bound against a sender script, single task under the
//! scheduler (virtual timers, exact blocking detection); a few real-time cases for the
//! "waits at least d" clause; E1: receive calls racing a sending/dropping task, with the timer
//! as an explicit alternative.
use super::c02::{payload, validate, CLOCK};
use super::e1::{self, sched_cfg, Scenario};
use super::sweep;
use crate::common::{Report, Tier};
use crate::exec::{obs, Outcome, Status};
use crate::interpose::{self, Cfg};
use ipc_channel::ipc::{self, IpcError, TryRecvError};
use ipc_channel::platform::OsIpcSender;
use serde::{Deserialize, Serialize};
use serde_json::{json, Value};
use std::collections::HashSet;
use std::sync::atomic::Ordering;
use std::time::Duration;

#[derive(Clone, Copy, Debug, Serialize, Deserialize, PartialEq, Eq, Hash)]
pub enum Pre {
    Nothing,
    Small,
    Big,
    Drop,
}

#[derive(Clone, Copy, Debug, Serialize, Deserialize, PartialEq, Eq, Hash)]
pub enum Call {
    Recv,
    Try,
    /// try_recv_timeout with this many microseconds
    Timed(u64),
}

#[derive(Clone, Debug, Serialize, Deserialize, PartialEq, Eq, Hash)]
pub struct Script {
    pub steps: Vec<(Pre, Call)>,
    /// finish with a blocking recv on an idle connected channel: it must block
    pub final_blocking_recv: bool,
}

fn big_len() -> usize {
    let m = OsIpcSender::get_max_fragment_size();
    if m == usize::MAX {
        10000
    } else {
        2 * m + 300
    }
}

fn body(s: &Script) -> Result<(), String> {
    let (tx, rx) = ipc::channel::<Vec<u8>>().map_err(|e| e.to_string())?;
    let mut tx = Some(tx);
    let mut queue: std::collections::VecDeque<u32> = Default::default();
    let mut seq = 0u32;
    for (i, (pre, call)) in s.steps.iter().enumerate() {
        match pre {
            Pre::Nothing => {},
            Pre::Small | Pre::Big => {
                let len = if *pre == Pre::Small { 40 } else { big_len() };
                tx.as_ref().unwrap().send(payload(0, seq, len)).map_err(|e| format!("send: {}", e))?;
                queue.push_back(seq);
                seq += 1;
            },
            Pre::Drop => {
                tx = None;
            },
        }
        let before = interpose::poll_timeouts().len();
        let t0 = std::time::Instant::now();
        let res: Result<Vec<u8>, TryRecvError> = match call {
            Call::Recv => rx.recv().map_err(TryRecvError::IpcError),
            Call::Try => rx.try_recv(),
            Call::Timed(us) => rx.try_recv_timeout(Duration::from_micros(*us)),
        };
        if let (Call::Timed(us), Err(TryRecvError::Empty)) = (call, &res) {
            // the clock is virtual under the scheduler: it advances by what a timed wait asked for
            // when that wait's timer is the alternative taken, so this holds for any way of waiting
            let el = t0.elapsed();
            if el < Duration::from_millis(*us / 1000) {
                return Err(format!("step {}: try_recv_timeout({} us) reported empty after only {:?} (virtual time)", i, us, el));
            }
            // "waits at least the requested time (to millisecond granularity) before reporting
            // 'empty'": timers are virtual here, so look at what was handed to poll(2) during the
            // call; an implementation may poll more than once.
            let pt = interpose::poll_timeouts();
            if cfg!(not(feature = "inproc")) {
                let want = (*us / 1000) as i64;
                let total: i64 = pt[before..].iter().map(|t| if *t < 0 { i64::MAX / 4 } else { *t as i64 }).sum();
                // (only observable if the implementation waits with poll(2) at all; the real-time
                // cases cover any other way of waiting)
                if pt.len() > before && total < want {
                    return Err(format!("step {}: try_recv_timeout({} us) reported empty after waits of {:?} ms in total, less than {} ms", i, us, &pt[before..], want));
                }
            }
        }
        let expect = if let Some(h) = queue.front() {
            format!("msg{}", h)
        } else if tx.is_some() {
            "empty".to_string()
        } else {
            "disconnected".to_string()
        };
        let got = match &res {
            Ok(v) => {
                let (_, q) = validate(v)?;
                format!("msg{}", q)
            },
            Err(TryRecvError::Empty) => "empty".to_string(),
            Err(TryRecvError::IpcError(IpcError::Disconnected)) => "disconnected".to_string(),
            Err(e) => format!("error {:?}", e),
        };
        if got != expect {
            return Err(format!("step {} ({:?} then {:?}): got {}, the ideal channel gives {}", i, pre, call, got, expect));
        }
        if res.is_ok() {
            queue.pop_front();
        }
    }
    if s.final_blocking_recv {
        obs("expect-block");
        let r = rx.recv();
        return Err(format!(
            "[poisoned] a blocking recv on an idle, connected channel returned {:?} instead of blocking",
            r.map(|v| v.len())
        ));
    }
    Ok(())
}

/// the only acceptable deadlock: the final blocking recv of a script that asked for it
fn judge_script(o: &Outcome) -> Result<(), String> {
    match o.status() {
        Status::Deadlock(d) => {
            let r = o.result.as_ref().unwrap();
            if r.obs.last().map(|s| s == "expect-block").unwrap_or(false) {
                Ok(())
            } else {
                Err(format!("a receive call blocked although a result was due: {}", d))
            }
        },
        _ => super::describe(o).map(|_| ()),
    }
}

pub fn scripts(tier: Tier) -> Vec<Script> {
    let timeouts: Vec<u64> = if tier.is_quick() { vec![0, 200, 1500] } else { vec![0, 200, 1000, 1500, 20000] };
    let mut calls = vec![Call::Recv, Call::Try];
    calls.extend(timeouts.iter().map(|t| Call::Timed(*t)));
    let pres = [Pre::Nothing, Pre::Small, Pre::Big, Pre::Drop];
    let maxlen = if tier.is_quick() { 3 } else { 4 };
    let mut out = Vec::new();
    // DFS over (queue length, alive) so that no recv is issued that the model says would block
    fn rec(cur: &mut Vec<(Pre, Call)>, q: usize, alive: bool, maxlen: usize, pres: &[Pre], calls: &[Call], out: &mut Vec<Script>) {
        if !cur.is_empty() {
            out.push(Script { steps: cur.clone(), final_blocking_recv: false });
            if q == 0 && alive {
                out.push(Script { steps: cur.clone(), final_blocking_recv: true });
            }
        }
        if cur.len() == maxlen {
            return;
        }
        for &p in pres {
            let (mut q2, mut alive2) = (q, alive);
            match p {
                Pre::Nothing => {},
                Pre::Small | Pre::Big => {
                    if !alive {
                        continue;
                    }
                    q2 += 1;
                },
                Pre::Drop => {
                    if !alive {
                        continue;
                    }
                    alive2 = false;
                },
            }
            for &c in calls {
                if c == Call::Recv && q2 == 0 && alive2 {
                    continue; // would block
                }
                cur.push((p, c));
                rec(cur, q2.saturating_sub(1), alive2, maxlen, pres, calls, out);
                cur.pop();
            }
        }
    }
    rec(&mut Vec::new(), 0, true, maxlen, &pres, &calls, &mut out);
    out
}

// --- real-time lower bound ---------------------------------------------------------------------

fn realtime_body(us: &u64) -> Result<(), String> {
    let (_tx, rx) = ipc::channel::<u32>().map_err(|e| e.to_string())?;
    let t0 = std::time::Instant::now();
    match rx.try_recv_timeout(Duration::from_micros(*us)) {
        Err(TryRecvError::Empty) => {},
        other => return Err(format!("idle channel: {:?}", other.map(|_| ()))),
    }
    let el = t0.elapsed();
    let floor_ms = Duration::from_millis(*us / 1000);
    if el < floor_ms {
        return Err(format!("try_recv_timeout({} us) reported empty after only {:?}", us, el));
    }
    Ok(())
}

// --- E1 ----------------------------------------------------------------------------------------

#[derive(Clone, Debug, Serialize, Deserialize)]
pub struct Race {
    pub first: Call,
    pub sender: Pre,
    /// a second non-blocking call before the final blocking recv
    pub second: Option<Call>,
}

fn race_body(r: &Race) -> Result<(), String> {
    let (tx, rx) = ipc::channel::<Vec<u8>>().map_err(|e| e.to_string())?;
    let act = r.sender;
    let h = std::thread::spawn(move || {
        let b = CLOCK.fetch_add(1, Ordering::SeqCst);
        let res = match act {
            Pre::Small => tx.send(payload(0, 0, 40)).is_ok(),
            Pre::Big => tx.send(payload(0, 0, big_len())).is_ok(),
            _ => true,
        };
        drop(tx);
        let e = CLOCK.fetch_add(1, Ordering::SeqCst);
        (b, e, res)
    });
    // no system call separates the spawn from the first receive call in the in-process build: give
    // the scheduler the choice of who goes first (default: the sender; one deviation: the receiver)
    e1::inproc_point();
    let sends = matches!(act, Pre::Small | Pre::Big);
    let mut delivered = 0;
    let mut calls = vec![r.first];
    if let Some(c) = r.second {
        calls.push(c);
    }
    let mut log = Vec::new();
    let mut disconnected = false;
    for c in calls {
        let cb = CLOCK.fetch_add(1, Ordering::SeqCst);
        let t0 = std::time::Instant::now();
        let res = match c {
            Call::Recv => rx.recv().map_err(TryRecvError::IpcError),
            Call::Try => rx.try_recv(),
            Call::Timed(us) => rx.try_recv_timeout(Duration::from_micros(us)),
        };
        let el = t0.elapsed();
        let ce = CLOCK.fetch_add(1, Ordering::SeqCst);
        if let (Call::Timed(us), Err(TryRecvError::Empty)) = (c, &res) {
            // 'empty' only after the requested time; a message or the disconnection during the
            // wait ends it early with that result, never with 'empty' (virtual clock)
            if el < Duration::from_millis(us / 1000) {
                return Err(format!("try_recv_timeout({} us) reported 'empty' after only {:?} (virtual time) while the sender was active", us, el));
            }
        }
        match res {
            Ok(v) => {
                validate(&v)?;
                delivered += 1;
                log.push((cb, ce, "msg"));
            },
            Err(TryRecvError::Empty) => log.push((cb, ce, "empty")),
            Err(TryRecvError::IpcError(IpcError::Disconnected)) => {
                disconnected = true;
                log.push((cb, ce, "disconnected"))
            },
            Err(e) => return Err(format!("{:?} returned an error: {:?}", c, e)),
        }
    }
    // "neither call changes later behaviour": the blocking receive still works
    let mut tail = Vec::new();
    if !disconnected {
        loop {
            match rx.recv() {
                Ok(v) => {
                    validate(&v)?;
                    delivered += 1;
                    tail.push("msg");
                },
                Err(IpcError::Disconnected) => {
                    tail.push("disconnected");
                    break;
                },
                Err(e) => return Err(format!("[poisoned] blocking recv after {:?} failed instead of blocking: {:?}", r.first, e)),
            }
        }
    }
    let (sb, se, sok) = h.join().map_err(|_| "sender panicked".to_string())?;
    if !sok {
        return Err("send failed on a healthy channel".into());
    }
    obs(format!("{:?} tail={:?}", log.iter().map(|l| l.2).collect::<Vec<_>>(), tail));
    if delivered != sends as usize {
        return Err(format!("message delivered {} times (sent: {})", delivered, sends));
    }
    for (cb, ce, what) in &log {
        // the sender finished (message complete, or handle dropped) before the call began
        if se < *cb {
            if *what == "empty" {
                return Err(format!("a non-blocking receive begun after the sender had finished reported 'empty' (sender {:?})", act));
            }
        }
        // the sender had not started when the call ended
        if *ce < sb && *what != "empty" {
            return Err(format!("a receive that ended before the sender did anything reported {}", what));
        }
        if *what == "disconnected" && sends && delivered == 0 {
            return Err("disconnected reported before the message that was sent earlier".into());
        }
    }
    Ok(())
}

pub fn scenarios(tier: Tier) -> Vec<Scenario> {
    let mut v = Vec::new();
    let firsts: Vec<Call> = if tier.is_quick() {
        vec![Call::Try, Call::Timed(0), Call::Timed(20000)]
    } else {
        vec![Call::Try, Call::Timed(0), Call::Timed(200), Call::Timed(1500), Call::Timed(20000)]
    };
    for f in &firsts {
        for s in [Pre::Small, Pre::Big, Pre::Drop] {
            let seconds: Vec<Option<Call>> = if tier.is_quick() { vec![None] } else { vec![None, Some(Call::Try), Some(Call::Timed(1500))] };
            for second in seconds {
                let r = Race { first: *f, sender: s, second };
                let name = format!("{:?}", r);
                let bound = 3;
                let mut cfg = sched_cfg();
                // in-process channels block by spinning, yielding, then parking: let the receiver
                // also get as far as parking before the sender moves
                cfg.yield_alts = cfg!(feature = "inproc");
                v.push(Scenario::new(name, cfg, bound, move || race_body(&r)));
            }
        }
    }
    v
}

pub fn run(tier: Tier, part_only: bool) -> i32 {
    let mut rep = Report::new("C10", tier, "model_checking");
    run_all(&mut rep, tier);
    if part_only {
        return super::emit_part(&super::Part::from_report(&rep));
    }
    match super::run_variant_part("inproc", "C10", tier) {
        Ok(p) => p.merge_into(&mut rep),
        Err(e) => rep.machinery(e),
    }
    rep.finish()
}

fn run_all(rep: &mut Report, tier: Tier) {
    let scs = scenarios(tier);
    let tot = e1::run_scenarios(rep, &scs, &e1::strict_judge, if tier.is_quick() { 25.0 } else { 2000.0 });
    // E2 scripts
    let ss = scripts(tier);
    let cfg = Cfg { sched: true, fake_sndbuf: Some(4608), ..Default::default() };
    let mut n = 0u64;
    let mut nontrivial: HashSet<Script> = HashSet::new();
    let mut fails = Vec::new();
    sweep(&ss, 60.0, &|_| cfg.clone(), &body, &mut |_, c, out| {
        n += 1;
        match judge_script(out) {
            Ok(()) => {
                if c.steps.len() > 1 || c.final_blocking_recv {
                    nontrivial.insert(c.clone());
                }
            },
            Err(e) if e.starts_with("MACHINERY") => rep.machinery(e),
            Err(e) => fails.push((c.clone(), e)),
        }
    });
    for (c, e) in fails {
        rep.fail(&format!("{} :: {:?}", e, c), json!({"engine": "E2-script", "case": c}));
    }
    // real-time lower bound
    let rts: Vec<u64> = vec![0, 200, 1000, 1500, 20000];
    let mut nrt = 0u64;
    let mut rfails = Vec::new();
    sweep(&rts, 60.0, &|_| Cfg::default(), &realtime_body, &mut |_, c, out| {
        nrt += 1;
        if let Err(e) = super::describe(out) {
            rfails.push((*c, e));
        }
    });
    for (c, e) in rfails {
        rep.fail(&format!("{} :: realtime {} us", e, c), json!({"engine": "E2-realtime", "case": c}));
    }
    rep.set("call_sequences", json!(n));
    rep.set("call_sequences_nontrivial", json!(nontrivial.len()));
    rep.set("realtime_cases", json!(nrt));
    rep.sample(json!({"call_sequence": ss[ss.len() / 2]}));
    rep.set("evaluations", json!(tot.execs + n + nrt));
    rep.set("distinct_nontrivial", json!(tot.with_switch + nontrivial.len() as u64));
    rep.set("deviation_bound", json!(tot.max_bound));
    rep.set("rule", json!("E1: one evaluation = one schedule (<= bound deviations incl. timer firings) of a receiver doing try_recv / try_recv_timeout(d) [+ a second non-blocking call] then blocking recv against a task that sends small / 3-packet or drops; E2: every call sequence of length <= 3 (4 thorough) over {recv, try_recv, try_recv_timeout(d)} x pre-action {nothing, small, 3-packet, drop} that never issues a recv the ideal channel would block on, each optionally ended by a blocking recv that MUST block; timers are virtual (the value handed to poll is checked), plus 5 real-time cases for the lower bound; schedules are distinct by construction (the depth-first search never repeats a choice sequence) and a schedule counts as non-trivial when it contains at least one context switch; enumerated cases are distinct by construction; a call sequence counts as non-trivial when it has more than one step or ends with the blocking recv"));
    rep.assume("try_recv while a multi-packet message is half sent is unspecified (may wait for the sender); only complete messages are required to be returned");
    rep.assume("long time-outs are virtual under the scheduler: the argument of poll(2), the virtual clock (advanced by what each timed wait asked for) and a real-time lower bound for 5 durations are checked, not wall-clock accuracy");
    rep.set("builds", json!("all of the above on the OS build and again on the in-process build (keys prefixed inproc.)"));
}

pub fn replay(tier: Tier, v: &Value) -> i32 {
    let v = if v.get("variant").is_some() { &v["case"] } else { v };
    if v["engine"] == "E2-script" {
        let Ok(c) = serde_json::from_value::<Script>(v["case"].clone()) else { return 2 };
        let cfg = Cfg { sched: true, fake_sndbuf: Some(4608), trace: true, ..Default::default() };
        for r in 0..2 {
            let out = crate::exec::run_one(&cfg, 60.0, &|| body(&c));
            println!("replay round {}: {:?} -> {:?}", r, c, judge_script(&out));
        }
        return 0;
    }
    if v["engine"] == "E2-realtime" {
        let us = v["case"].as_u64().unwrap_or(0);
        let out = crate::exec::run_one(&Cfg::default(), 60.0, &|| realtime_body(&us));
        println!("replay: {:?}", super::describe(&out));
        return 0;
    }
    let mut scs = scenarios(tier);
    scs.extend(scenarios(if tier.is_quick() { Tier::Thorough } else { Tier::Quick }));
    e1::replay(&scs, v)
}
