//! C14 — a failed or nested send leaves no trace in later or enclosing messages.
//! E2: "serialisation programs" interpreted by a Serialize impl (attach endpoint / region /
//! data, fail here, send another program on another channel from inside serialisation, and
//! receive it from inside deserialisation), enumerated up to a length and nesting bound; then
//! all handles are dropped and two plain messages follow on the same thread.
use super::sweep;
use crate::common::{Report, Tier};
use crate::exec::obs;
use crate::interpose::{self, Cfg};
use ipc_channel::ipc::{self, IpcError, IpcReceiver, IpcSender, IpcSharedMemory, TryRecvError};
use serde::{Deserialize, Deserializer, Serialize, Serializer};
use serde_json::{json, Value};
use std::cell::RefCell;
use std::collections::{HashMap, HashSet};

#[derive(Clone, Debug, Serialize, Deserialize, PartialEq, Eq, Hash)]
pub enum Step {
    Tx,
    Rx,
    Shm,
    Data,
    Fail,
    Nested(Vec<Step>),
}

type MsgT = Vec<StepVal>;

std::thread_local! {
    static INNER_RX: RefCell<HashMap<u32, IpcReceiver<MsgT>>> = RefCell::new(HashMap::new());
    static INNER_SENT: RefCell<HashMap<u32, bool>> = RefCell::new(HashMap::new());
    static INNER_GOT: RefCell<HashMap<u32, Result<MsgT, String>>> = RefCell::new(HashMap::new());
    static USED_RX: RefCell<Vec<IpcReceiver<MsgT>>> = RefCell::new(Vec::new());
}

pub struct FailHere;
impl Serialize for FailHere {
    fn serialize<S: Serializer>(&self, _s: S) -> Result<S::Ok, S::Error> {
        Err(serde::ser::Error::custom("fail-here"))
    }
}
impl<'de> Deserialize<'de> for FailHere {
    fn deserialize<D: Deserializer<'de>>(_d: D) -> Result<Self, D::Error> {
        Ok(FailHere)
    }
}

pub struct NestedSend {
    id: u32,
    chan: Option<IpcSender<MsgT>>,
    val: RefCell<Option<MsgT>>,
}
impl Serialize for NestedSend {
    fn serialize<S: Serializer>(&self, s: S) -> Result<S::Ok, S::Error> {
        if let (Some(ch), Some(v)) = (&self.chan, self.val.borrow_mut().take()) {
            let r = ch.send(v);
            INNER_SENT.with(|m| m.borrow_mut().insert(self.id, r.is_ok()));
        }
        self.id.serialize(s)
    }
}
impl<'de> Deserialize<'de> for NestedSend {
    fn deserialize<D: Deserializer<'de>>(d: D) -> Result<Self, D::Error> {
        let id = u32::deserialize(d)?;
        let sent = INNER_SENT.with(|m| m.borrow().get(&id).copied().unwrap_or(false));
        if sent {
            if let Some(rx) = INNER_RX.with(|m| m.borrow_mut().remove(&id)) {
                // a receive from inside a deserialisation
                let got = rx.recv().map_err(|e| format!("{:?}", e));
                INNER_GOT.with(|m| m.borrow_mut().insert(id, got));
                USED_RX.with(|v| v.borrow_mut().push(rx));
            }
        }
        Ok(NestedSend { id, chan: None, val: RefCell::new(None) })
    }
}

#[derive(Serialize, Deserialize)]
pub enum StepVal {
    Tx(IpcSender<u32>),
    Rx(IpcReceiver<u32>),
    Shm(IpcSharedMemory),
    Data(u8),
    Fail(FailHere),
    Nested(NestedSend),
}

enum Kept {
    RxOf(IpcReceiver<u32>),
    TxOf(IpcSender<u32>),
    Shm(Vec<u8>),
    Data(u8),
    None,
}

/// what the harness remembers about one message (outer or nested)
struct MsgInfo {
    id: u32,
    kept: Vec<Kept>,
    /// serialisation reaches a Fail step at this level
    fails: bool,
}

struct Built {
    infos: Vec<MsgInfo>,
    next_id: u32,
}

fn build(prog: &[Step], my_id: u32, b: &mut Built) -> Result<MsgT, String> {
    let mut vals = Vec::new();
    let mut kept = Vec::new();
    let mut fails = false;
    for (i, st) in prog.iter().enumerate() {
        match st {
            Step::Tx => {
                let (t, r) = ipc::channel::<u32>().map_err(|e| e.to_string())?;
                vals.push(StepVal::Tx(t));
                kept.push(Kept::RxOf(r));
            },
            Step::Rx => {
                let (t, r) = ipc::channel::<u32>().map_err(|e| e.to_string())?;
                vals.push(StepVal::Rx(r));
                kept.push(Kept::TxOf(t));
            },
            Step::Shm => {
                let bytes = vec![my_id as u8, i as u8, 0xEE, 7, 7, 7];
                vals.push(StepVal::Shm(IpcSharedMemory::from_bytes(&bytes)));
                kept.push(Kept::Shm(bytes));
            },
            Step::Data => {
                let d = (my_id as u8).wrapping_mul(16).wrapping_add(i as u8);
                vals.push(StepVal::Data(d));
                kept.push(Kept::Data(d));
            },
            Step::Fail => {
                vals.push(StepVal::Fail(FailHere));
                kept.push(Kept::None);
                fails = true;
            },
            Step::Nested(inner) => {
                let id = b.next_id;
                b.next_id += 1;
                let (itx, irx) = ipc::channel::<MsgT>().map_err(|e| e.to_string())?;
                INNER_RX.with(|m| m.borrow_mut().insert(id, irx));
                let iv = build(inner, id, b)?;
                vals.push(StepVal::Nested(NestedSend { id, chan: Some(itx), val: RefCell::new(Some(iv)) }));
                kept.push(Kept::None);
            },
        }
    }
    b.infos.push(MsgInfo { id: my_id, kept, fails });
    Ok(vals)
}

/// probe the attachments of a delivered message against what was attached at that position
fn probe(id: u32, got: MsgT, kept: &[Kept]) -> Result<Vec<Box<dyn std::any::Any>>, String> {
    let mut alive: Vec<Box<dyn std::any::Any>> = Vec::new();
    if got.len() != kept.len() {
        return Err(format!("message {}: {} steps sent, {} arrived", id, kept.len(), got.len()));
    }
    for (i, (g, k)) in got.into_iter().zip(kept.iter()).enumerate() {
        let nonce = 5000 + id * 100 + i as u32;
        match (g, k) {
            (StepVal::Tx(t), Kept::RxOf(r)) => {
                t.send(nonce).map_err(|e| format!("message {} step {}: received sender unusable: {}", id, i, e))?;
                match r.try_recv() {
                    Ok(n) if n == nonce => {},
                    other => return Err(format!("message {} step {}: the sender that arrived is not the one attached there ({:?})", id, i, other)),
                }
                alive.push(Box::new(t));
            },
            (StepVal::Rx(r), Kept::TxOf(t)) => {
                t.send(nonce).map_err(|e| format!("message {} step {}: transferred receiver gone: {}", id, i, e))?;
                match r.try_recv() {
                    Ok(n) if n == nonce => {},
                    other => return Err(format!("message {} step {}: the receiver that arrived is not the one attached there ({:?})", id, i, other)),
                }
                alive.push(Box::new(r));
            },
            (StepVal::Shm(s), Kept::Shm(b)) => {
                if &*s != &b[..] {
                    return Err(format!("message {} step {}: region contents are those of another attachment", id, i));
                }
            },
            (StepVal::Data(d), Kept::Data(e)) => {
                if d != *e {
                    return Err(format!("message {} step {}: data byte {} != {}", id, i, d, e));
                }
            },
            (StepVal::Nested(_), Kept::None) | (StepVal::Fail(_), Kept::None) => {},
            _ => return Err(format!("message {} step {}: step kind changed in transit", id, i)),
        }
    }
    Ok(alive)
}

fn body(prog: &Vec<Step>) -> Result<(), String> {
    // a leading `Step::Data, Step::Data, Step::Data, Step::Data` marker is not used; OS-level
    // rejection is requested by the wrapper below
    body2(prog, false)
}

fn body_os_reject(prog: &Vec<Step>) -> Result<(), String> {
    body2(prog, true)
}

fn body2(prog: &Vec<Step>, os_reject: bool) -> Result<(), String> {
    let (tx, rx) = ipc::channel::<MsgT>().map_err(|e| e.to_string())?;
    let rx = if os_reject {
        // the OS will reject the transmission: the receiving end is gone
        drop(rx);
        let (_t, r) = ipc::channel::<MsgT>().map_err(|e| e.to_string())?;
        r
    } else {
        rx
    };
    let mut b = Built { infos: Vec::new(), next_id: 1 };
    let val = build(prog, 0, &mut b)?;
    let r = tx.send(val);
    let outer_info = b.infos.iter().find(|m| m.id == 0).unwrap();
    obs(format!("outer={}", if r.is_ok() { "ok" } else { "err" }));
    if r.is_ok() == (outer_info.fails || os_reject) {
        return Err(format!("outer send result ok={:?} but program fails={} os_reject={}", r.is_ok(), outer_info.fails, os_reject));
    }
    let mut alive: Vec<Box<dyn std::any::Any>> = Vec::new();
    if r.is_ok() {
        let got = rx.recv().map_err(|e| format!("outer message accepted but recv failed: {:?}", e))?;
        alive.extend(probe(0, got, &outer_info.kept)?);
    }
    // nested messages: sent ones must have arrived intact (received inside deserialisation if the
    // outer one was delivered, else fetched directly)
    let sent: Vec<(u32, bool)> = INNER_SENT.with(|m| m.borrow().iter().map(|(k, v)| (*k, *v)).collect());
    for (id, ok) in sent {
        let info = b.infos.iter().find(|m| m.id == id).unwrap();
        if ok == info.fails {
            return Err(format!("nested message {}: send result {} but program fails={}", id, ok, info.fails));
        }
        if !ok {
            continue;
        }
        let got = match INNER_GOT.with(|m| m.borrow_mut().remove(&id)) {
            Some(g) => g,
            None => match INNER_RX.with(|m| m.borrow_mut().remove(&id)) {
                Some(irx) => {
                    let g = irx.recv().map_err(|e| format!("{:?}", e));
                    alive.push(Box::new(irx));
                    g
                },
                None => Err("receiver missing".into()),
            },
        };
        let got = got.map_err(|e| format!("nested message {} was accepted but could not be received: {}", id, e))?;
        alive.extend(probe(id, got, &info.kept)?);
    }
    // drop every handle the program obtained
    drop(alive);
    drop(tx);
    drop(rx);
    INNER_RX.with(|m| m.borrow_mut().clear());
    USED_RX.with(|m| m.borrow_mut().clear());
    INNER_GOT.with(|m| m.borrow_mut().clear());
    // now nothing but the library could keep the attached endpoints alive
    for info in &b.infos {
        for (i, k) in info.kept.iter().enumerate() {
            match k {
                Kept::RxOf(r) => match r.try_recv() {
                    Err(TryRecvError::IpcError(IpcError::Disconnected)) => {},
                    other => {
                        return Err(format!(
                            "[retained-after-send] message {} step {}: the attached sender is still alive after every program handle was dropped ({:?})",
                            info.id,
                            i,
                            other.map(|_| "message")
                        ))
                    },
                },
                Kept::TxOf(t) => {
                    if t.send(1).is_ok() {
                        return Err(format!("[retained-after-send] message {} step {}: the attached receiver is still alive after every program handle was dropped", info.id, i));
                    }
                },
                _ => {},
            }
        }
    }
    drop(b);
    // further traffic on the same thread carries exactly its own attachments and bytes
    for round in 0..2u32 {
        let (ftx, frx) = ipc::channel::<MsgT>().map_err(|e| e.to_string())?;
        let mut fb = Built { infos: Vec::new(), next_id: 100 };
        let fprog = if round == 0 { vec![Step::Data, Step::Tx] } else { vec![Step::Shm, Step::Data, Step::Rx] };
        let v = build(&fprog, 50 + round, &mut fb)?;
        ftx.send(v).map_err(|e| format!("follow-up message {} refused: {}", round, e))?;
        let got = frx.recv().map_err(|e| format!("[later-message-damaged] follow-up message {} could not be received: {:?}", round, e))?;
        let a = probe(50 + round, got, &fb.infos[0].kept).map_err(|e| format!("[later-message-damaged] {}", e))?;
        drop(a);
    }
    let snap = interpose::snapshot();
    if !snap.open_fds.is_empty() {
        return Err(format!("[retained-after-send] descriptors left open after everything was dropped: {:?}", snap.open_fds));
    }
    if let Some(a) = snap.anomalies.iter().find(|a| a.what.starts_with("close-")) {
        return Err(format!("[bad-close] {}", a.detail));
    }
    Ok(())
}

fn cfg_of(_: &Vec<Step>) -> Cfg {
    Cfg { sched: true, ..Default::default() }
}

fn seqs(alpha: &[Step], maxlen: usize) -> Vec<Vec<Step>> {
    let mut out: Vec<Vec<Step>> = vec![vec![]];
    let mut cur: Vec<Vec<Step>> = vec![vec![]];
    for _ in 0..maxlen {
        let mut nx = Vec::new();
        for p in &cur {
            for a in alpha {
                let mut q = p.clone();
                q.push(a.clone());
                nx.push(q);
            }
        }
        out.extend(nx.iter().cloned());
        cur = nx;
    }
    out
}

fn count_nested(p: &[Step]) -> usize {
    p.iter().map(|s| if let Step::Nested(i) = s { 1 + count_nested(i) } else { 0 }).sum()
}

pub fn cases(tier: Tier) -> Vec<Vec<Step>> {
    let a1 = vec![Step::Tx, Step::Rx, Step::Shm, Step::Data, Step::Fail];
    let inner = seqs(&a1, 2);
    let mut a2 = a1.clone();
    for i in &inner {
        a2.push(Step::Nested(i.clone()));
    }
    if tier.is_quick() {
        // length <= 3, depth <= 2, at most one nested send per program
        seqs(&a2, 3).into_iter().filter(|p| count_nested(p) <= 1).collect()
    } else {
        // depth 2 with up to two nested sends, plus depth 3 (a nested send inside a nested send)
        let mut out: Vec<Vec<Step>> = seqs(&a2, 3).into_iter().filter(|p| count_nested(p) <= 2).collect();
        let inner_small = seqs(&[Step::Tx, Step::Shm, Step::Fail], 1);
        let mut a3 = vec![Step::Tx, Step::Rx, Step::Shm, Step::Fail];
        for i in &inner_small {
            a3.push(Step::Nested(i.clone()));
        }
        let mids: Vec<Vec<Step>> = seqs(&a3, 2).into_iter().filter(|p| count_nested(p) == 1).collect();
        for m in mids {
            for pre in [None, Some(Step::Tx), Some(Step::Shm)] {
                for post in [None, Some(Step::Rx), Some(Step::Fail), Some(Step::Tx)] {
                    let mut p = Vec::new();
                    if let Some(s) = &pre {
                        p.push(s.clone());
                    }
                    p.push(Step::Nested(m.clone()));
                    if let Some(s) = &post {
                        p.push(s.clone());
                    }
                    out.push(p);
                }
            }
        }
        out
    }
}

pub fn run(tier: Tier, _part: bool) -> i32 {
    let mut rep = Report::new("C14", tier, "exploration");
    let cs = cases(tier);
    let mut n = 0u64;
    let mut nontrivial: HashSet<Vec<Step>> = HashSet::new();
    let mut fails = Vec::new();
    sweep(&cs, 60.0, &cfg_of, &body, &mut |_, c, out| {
        n += 1;
        match super::describe(out) {
            Ok(_) => {
                if c.iter().any(|s| matches!(s, Step::Fail | Step::Nested(_))) {
                    nontrivial.insert(c.clone());
                }
            },
            Err(e) if e.starts_with("MACHINERY") => rep.machinery(e),
            Err(e) => fails.push((c.clone(), e)),
        }
    });
    // the other failure cause: the OS rejects the transmission (receiver gone), programs without
    // nested sends
    let osr: Vec<Vec<Step>> = cs.iter().filter(|p| count_nested(p) == 0 && !p.is_empty()).cloned().collect();
    let mut n2 = 0u64;
    let mut fails2 = Vec::new();
    sweep(&osr, 60.0, &cfg_of, &body_os_reject, &mut |_, c, out| {
        n2 += 1;
        match super::describe(out) {
            Ok(_) => {
                nontrivial.insert(vec![Step::Nested(c.clone())]);
            },
            Err(e) if e.starts_with("MACHINERY") => rep.machinery(e),
            Err(e) => fails2.push((c.clone(), e)),
        }
    });
    n += n2;
    for (c, e) in fails2 {
        rep.fail(&format!("[os-rejected-send] {} :: {:?}", e, c), json!({"os_reject": true, "prog": c}));
    }
    for (c, e) in fails {
        let has_fail = format!("{:?}", c).contains("Fail");
        let class = if has_fail { "program-with-failing-serialisation" } else { "program-without-failure" };
        rep.fail(&format!("[{}] {} :: {:?}", class, e, c), serde_json::to_value(&c).unwrap());
    }
    rep.set("evaluations", json!(n));
    rep.set("distinct_nontrivial", json!(nontrivial.len()));
    rep.set("rule", json!("case = serialisation program over {attach sender, attach receiver, attach region, data byte, fail here, nested send of a sub-program on its own channel (received from inside the outer deserialisation)}; quick: length <= 3, nesting depth <= 2, <= 1 nested send; thorough: <= 2 nested sends plus depth-3 nestings; distinct_nontrivial = distinct programs containing a failure or a nested send that passed"));
    rep.set("exhaustive", json!(true));
    rep.sample(serde_json::to_value(&cs[cs.len() / 2]).unwrap());
    rep.sample(serde_json::to_value(&cs[cs.len() - 3]).unwrap());
    rep.assume("failures are serialisation errors (all programs) and OS-level rejection because the receiving end is gone (programs without nested sends)");
    rep.finish()
}

pub fn replay(v: &Value) -> i32 {
    let osr = v.get("os_reject").is_some();
    let Ok(c) = serde_json::from_value::<Vec<Step>>(if osr { v["prog"].clone() } else { v.clone() }) else { return 2 };
    for r in 0..2 {
        let out = crate::exec::run_one(&cfg_of(&c), 60.0, &|| body2(&c, osr));
        println!("replay round {}: {:?} -> {:?}", r, c, super::describe(&out));
    }
    0
}
