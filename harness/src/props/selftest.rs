//! Engine self-test: interposition reaches the library, the scheduler explores.
use crate::exec::{self, obs, Status};
use crate::explore::{explore, ExploreCfg};
use crate::interpose::Cfg;
use ipc_channel::ipc;
use ipc_channel::platform::OsIpcSender;

pub fn run() -> i32 {
    // 1. passive: fake SO_SNDBUF changes the fragment size
    let cfg = Cfg { fake_sndbuf: Some(4608), trace: true, ..Default::default() };
    let out = exec::run_one(&cfg, 20.0, &|| {
        obs(format!("max_fragment={}", OsIpcSender::get_max_fragment_size()));
        let (tx, rx) = ipc::bytes_channel().map_err(|e| e.to_string())?;
        let data = crate::common::pattern(10000, 1);
        tx.send(&data).map_err(|e| e.to_string())?;
        let got = rx.recv().map_err(|e| format!("{:?}", e))?;
        if got != data {
            return Err("payload differs".into());
        }
        Ok(())
    });
    let r = out.result.expect("no result");
    println!("passive: status={:?} obs={:?} trace_len={} snapshot_fds={}", r.status, r.obs, r.trace.len(), r.snapshot.open_fds.len());
    for t in r.trace.iter().take(12) {
        println!("   {:?}", t);
    }
    // 2. E1: two sender threads, one two-packet message each, blocking receiver
    for bound in 0..=2 {
        let base = Cfg { sched: true, fake_sndbuf: Some(4608), ..Default::default() };
        let ecfg = ExploreCfg::new(base, bound);
        let st = explore(
            &ecfg,
            &|| {
                let (tx, rx) = ipc::bytes_channel().map_err(|e| e.to_string())?;
                let mut hs = Vec::new();
                for s in 0..2u64 {
                    let tx = tx.clone();
                    hs.push(std::thread::spawn(move || {
                        let data = crate::common::pattern(6000, s);
                        tx.send(&data).unwrap();
                    }));
                }
                drop(tx);
                let mut order = Vec::new();
                for _ in 0..2 {
                    let got = rx.recv().map_err(|e| format!("{:?}", e))?;
                    let who = (0..2u64).find(|s| crate::common::pattern(6000, *s) == got);
                    match who {
                        Some(w) => order.push(w),
                        None => return Err("mixed payload".into()),
                    }
                }
                obs(format!("order={:?}", order));
                for h in hs {
                    h.join().unwrap();
                }
                match rx.recv() {
                    Err(ipc::IpcError::Disconnected) => Ok(()),
                    other => Err(format!("expected disconnect, got {:?}", other.map(|v| v.len()))),
                }
            },
            &|o| match o.status() {
                Status::Ok => Ok(()),
                s => Err(format!("{:?}", s)),
            },
        );
        println!(
            "E1 bound={} execs={} states={} transitions={} outcomes={} max_points={} mismatches={} violations={} machinery={:?} wall={:.2}s by_cost={:?}",
            bound,
            st.execs,
            st.states.len(),
            st.transitions,
            st.outcomes.len(),
            st.max_points,
            st.mismatches,
            st.violations.len(),
            st.machinery_errors,
            st.wall_s,
            st.by_cost
        );
        for v in st.violations.iter().take(2) {
            println!("  violation: {:?} obs={:?} panics={:?}", v.status, v.obs, v.panics);
        }
        for (_, (n, o)) in st.outcomes.iter() {
            println!("  outcome x{}: {:?}", n, o);
        }
    }
    0
}
