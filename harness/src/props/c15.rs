//! C15 — a value with more attachments than one message can carry is refused, not mangled.
//! E2 enumeration of attachment counts x mixtures x data-part sizes; each case in its own
//! child under the scheduler (single task) so a receive that would hang is an exact deadlock.
use super::sweep;
use crate::common::{pattern, Report, Tier};
use crate::exec::obs;
use crate::interpose::Cfg;
use ipc_channel::ipc::{self, IpcReceiver, IpcSender, IpcSharedMemory, TryRecvError};
use ipc_channel::platform::OsIpcSender;
use serde::{Deserialize, Serialize};
use serde_json::{json, Value};
use std::collections::HashSet;

#[derive(Clone, Copy, Debug, Serialize, Deserialize, PartialEq, Eq, Hash)]
pub enum Mix {
    Senders,
    Receivers,
    Regions,
    Alternating,
}

#[derive(Clone, Copy, Debug, Serialize, Deserialize, PartialEq, Eq, Hash)]
pub enum DataPart {
    Empty,
    Small,
    OnePacket,
    OneOver,
    P3,
    /// one packet, well above 2000 bytes (the range in which a refused packet is re-fragmented)
    Mid,
}

#[derive(Clone, Debug, Serialize, Deserialize)]
pub struct Case {
    pub count: usize,
    pub mix: Mix,
    pub data: DataPart,
    /// the OS refuses these transmission attempts of the big send with ENOBUFS (bit i = attempt i)
    #[serde(default)]
    pub enobufs: u64,
}

#[derive(Serialize, Deserialize)]
pub enum Item {
    Tx(IpcSender<u32>),
    Rx(IpcReceiver<u32>),
    Shm(IpcSharedMemory),
}

#[derive(Serialize, Deserialize)]
pub struct Big {
    pub items: Vec<Item>,
    pub data: Vec<u8>,
}

enum Kept {
    /// we kept the receiver of the sender we attached
    RxOf(IpcReceiver<u32>),
    /// we kept the sender of the receiver we attached
    TxOf(IpcSender<u32>),
    Shm(Vec<u8>),
}

fn kind_at(mix: Mix, i: usize) -> u8 {
    match mix {
        Mix::Senders => 0,
        Mix::Receivers => 1,
        Mix::Regions => 2,
        Mix::Alternating => (i % 3) as u8,
    }
}

pub fn build(count: usize, mix: Mix) -> Result<(Vec<Item>, Vec<Kept>), String> {
    let mut items = Vec::new();
    let mut kept = Vec::new();
    for i in 0..count {
        match kind_at(mix, i) {
            0 => {
                let (t, r) = ipc::channel::<u32>().map_err(|e| e.to_string())?;
                items.push(Item::Tx(t));
                kept.push(Kept::RxOf(r));
            },
            1 => {
                let (t, r) = ipc::channel::<u32>().map_err(|e| e.to_string())?;
                items.push(Item::Rx(r));
                kept.push(Kept::TxOf(t));
            },
            _ => {
                let b = pattern(100 + i, i as u64);
                items.push(Item::Shm(IpcSharedMemory::from_bytes(&b)));
                kept.push(Kept::Shm(b));
            },
        }
    }
    Ok((items, kept))
}

/// every received attachment must be the very endpoint/region that was attached at that position
pub fn probe(items: Vec<Item>, kept: &[Kept]) -> Result<(), String> {
    if items.len() != kept.len() {
        return Err(format!("{} attachments sent, {} arrived", kept.len(), items.len()));
    }
    for (i, (it, k)) in items.into_iter().zip(kept.iter()).enumerate() {
        let nonce = 1000 + i as u32;
        match (it, k) {
            (Item::Tx(t), Kept::RxOf(r)) => {
                t.send(nonce).map_err(|e| format!("attachment {}: received sender does not work: {}", i, e))?;
                match r.try_recv() {
                    Ok(n) if n == nonce => {},
                    other => return Err(format!("attachment {}: nonce sent through the received sender did not reach its channel: {:?}", i, other)),
                }
            },
            (Item::Rx(r), Kept::TxOf(t)) => {
                t.send(nonce).map_err(|e| format!("attachment {}: send to transferred receiver failed: {}", i, e))?;
                match r.try_recv() {
                    Ok(n) if n == nonce => {},
                    other => return Err(format!("attachment {}: received receiver is not the one that was sent: {:?}", i, other)),
                }
            },
            (Item::Shm(s), Kept::Shm(b)) => {
                if &*s != &b[..] {
                    return Err(format!("attachment {}: region contents differ", i));
                }
            },
            _ => return Err(format!("attachment {}: kind changed in transit", i)),
        }
    }
    Ok(())
}

fn data_for(d: DataPart, header: usize) -> Vec<u8> {
    let m = OsIpcSender::get_max_fragment_size();
    // in-process transport: no packets; use the sizes of the 4608-byte configuration
    let m = if m == usize::MAX { 4568 } else { m };
    let n = match d {
        DataPart::Empty => 0,
        DataPart::Small => 40,
        DataPart::OnePacket => m.saturating_sub(header),
        DataPart::OneOver => m.saturating_sub(header) + 1,
        DataPart::P3 => 2 * m + 500,
        DataPart::Mid => (m.saturating_sub(header) * 2 / 3).max(2100),
    };
    pattern(n, 5)
}

pub fn body(c: &Case) -> Result<(), String> {
    let (tx, rx) = ipc::channel::<Big>().map_err(|e| e.to_string())?;
    let (items, kept) = build(c.count, c.mix)?;
    // serialised size without the data bytes: 8 (items len) + per item 4 (variant) + 8 (index) + 8 (data len)
    let header = 8 + c.count * 12 + 8;
    let data = data_for(c.data, header);
    if c.enobufs != 0 {
        crate::interpose::arm();
    }
    let r = tx.send(Big { items, data: data.clone() });
    if c.enobufs != 0 {
        crate::interpose::disarm();
        crate::interpose::set_enobufs_mask(0);
    }
    obs(format!("send={}", if r.is_ok() { "ok" } else { "err" }));
    match r {
        Err(_) => {},
        Ok(()) => {
            let got = rx.recv().map_err(|e| format!("send accepted {} attachments but recv failed: {:?}", c.count, e))?;
            if got.data != data {
                return Err(format!("data part differs ({} vs {} bytes)", got.data.len(), data.len()));
            }
            probe(got.items, &kept).map_err(|e| format!("send accepted {} attachments but: {}", c.count, e))?;
        },
    }
    // the channel must stay usable
    let plain = Big { items: vec![], data: vec![1, 2, 3] };
    tx.send(plain).map_err(|e| format!("plain message refused after the big one: {}", e))?;
    let mut first = rx.recv();
    if r.is_err() && c.enobufs != 0 {
        // a send that gave up part-way (the OS kept refusing a small follow-up packet) may leave
        // the beginning of its message behind: the receiver reports that as an error *for that
        // message* (not as the end of the channel) and carries on with the next one
        if let Err(ipc::IpcError::Io(_)) = &first {
            first = rx.recv();
        }
    }
    match first {
        Ok(b) if b.data == vec![1, 2, 3] && b.items.is_empty() => {},
        Ok(_) => return Err("plain message arrived altered".into()),
        Err(e) => return Err(format!("plain message lost: {:?}", e)),
    }
    match rx.try_recv() {
        Err(TryRecvError::Empty) => Ok(()),
        Ok(_) => Err("an extra message appeared".into()),
        Err(e) => Err(format!("channel not idle afterwards: {:?}", e)),
    }
}

pub fn cfg_of(c: &Case) -> Cfg {
    Cfg { sched: true, fake_sndbuf: Some(4608), enobufs_mask: c.enobufs, ..Default::default() }
}

pub fn cases(tier: Tier) -> Vec<Case> {
    let counts: Vec<usize> = if tier.is_quick() {
        vec![0, 1, 62, 63, 64, 65, 66, 127, 252, 253, 254, 300]
    } else {
        (0..=300).collect()
    };
    let mut v = Vec::new();
    for &count in &counts {
        for mix in [Mix::Senders, Mix::Receivers, Mix::Regions, Mix::Alternating] {
            for data in [DataPart::Empty, DataPart::Small, DataPart::OnePacket, DataPart::OneOver, DataPart::P3] {
                v.push(Case { count, mix, data, enobufs: 0 });
            }
        }
    }
    // the counts around the limit again while the OS refuses the first transmission attempts: a
    // one-packet message that is re-fragmented needs one more descriptor than it did at first
    for count in [61usize, 62, 63, 64, 65] {
        for mix in [Mix::Senders, Mix::Receivers, Mix::Regions, Mix::Alternating] {
            for data in [DataPart::Mid, DataPart::OnePacket, DataPart::OneOver] {
                for enobufs in [1u64, 2, 3] {
                    v.push(Case { count, mix, data, enobufs });
                }
            }
        }
    }
    v
}

pub fn run(tier: Tier, _part: bool) -> i32 {
    let mut rep = Report::new("C15", tier, "exploration");
    // cheap check: both tiers run the thorough case list
    let cs = cases(Tier::Thorough);
    rep.set("tiers", json!("the quick tier runs the thorough tier's cases as well (the whole check takes a few seconds)"));
    let mut n = 0u64;
    let mut outcomes: HashSet<String> = HashSet::new();
    let mut fails = Vec::new();
    let mut accepted_max = 0usize;
    let mut refused_min = usize::MAX;
    sweep(&cs, 120.0, &cfg_of, &body, &mut |_, c, out| {
        n += 1;
        match super::describe(out) {
            Ok(o) => {
                if o.contains("send=ok") {
                    accepted_max = accepted_max.max(c.count);
                } else {
                    refused_min = refused_min.min(c.count);
                }
                outcomes.insert(format!("{}/{:?}/{:?}/{}/{}", c.count, c.mix, c.data, c.enobufs, o));
            },
            Err(e) if e.starts_with("MACHINERY") => rep.machinery(e),
            Err(e) => fails.push((c.clone(), e)),
        }
    });
    for (c, e) in fails {
        // signature names the count class so a known finding can be keyed narrowly
        let class = if (65..=253).contains(&c.count) || (c.count == 64 && matches!(c.data, DataPart::OneOver | DataPart::P3)) {
            "count-over-capacity-accepted"
        } else {
            "other"
        };
        rep.fail(&format!("[{}] {} :: {:?}", class, e, c), serde_json::to_value(&c).unwrap());
    }
    rep.set("evaluations", json!(n));
    rep.set("distinct_nontrivial", json!(outcomes.len()));
    rep.set("largest_count_accepted", json!(accepted_max));
    rep.set("smallest_count_refused", json!(if refused_min == usize::MAX { Value::Null } else { json!(refused_min) }));
    rep.set("rule", json!("case = (attachment count, mixture in {senders, receivers, regions, alternating}, data part in {empty, small, exactly one packet, one byte over, 3 packets}); quick: counts {0,1,62..66,127,252..254,300}, thorough: every count 0..=300; plus counts 61..65 x mixtures x {one packet above 2000 bytes, exactly one packet, one byte over} while the first / second / first two transmission attempts are refused with ENOBUFS; distinct_nontrivial = distinct (case, send result) pairs that completed"));
    rep.set("exhaustive", json!(true));
    rep.sample(serde_json::to_value(&cs[cs.len() / 2]).unwrap());
    rep.sample(serde_json::to_value(&cs[cs.len() - 1]).unwrap());
    rep.assume("each case runs single-task under the scheduler: a receive that would block is reported as a deadlock, not by time-out");
    rep.finish()
}

pub fn replay(v: &Value) -> i32 {
    let Ok(c) = serde_json::from_value::<Case>(v.clone()) else { return 2 };
    for r in 0..2 {
        let out = crate::exec::run_one(&cfg_of(&c), 120.0, &|| body(&c));
        println!("replay round {}: {:?} -> {:?}", r, c, super::describe(&out));
    }
    0
}
