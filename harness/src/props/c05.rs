//! C05 — shared-memory regions arrive with identical contents.
//! E2 enumeration: boundary lengths x constructor x 1..4 (8) regions per message in every
//! order x 0..3 clones before sending x reader (same process / forked child) x read moment
//! (on receipt / after all sender copies and the carrier are gone), on the os, memfd and
//! in-process builds.
use super::{emit_part, run_variant_part, sweep, Part};
use crate::common::{pattern, Report, Tier};
use crate::interpose::{self, Cfg};
use ipc_channel::ipc::{self, IpcSharedMemory};
use serde::{Deserialize, Serialize};
use serde_json::{json, Value};

#[derive(Clone, Debug, Serialize, Deserialize, PartialEq, Eq, Hash)]
pub struct Case {
    pub lens: Vec<usize>,
    pub from_byte: bool,
    pub clones: usize,
    pub reader_fork: bool,
    pub read_after_drop: bool,
}

fn want(i: usize, len: usize, from_byte: bool) -> Vec<u8> {
    if from_byte {
        vec![0x40 + i as u8; len]
    } else {
        pattern(len, 50 + i as u64)
    }
}

fn check_all(regs: &[IpcSharedMemory], c: &Case, who: &str) -> Result<(), String> {
    if regs.len() != c.lens.len() {
        return Err(format!("{}: {} regions sent, {} arrived", who, c.lens.len(), regs.len()));
    }
    for (i, r) in regs.iter().enumerate() {
        let w = want(i, c.lens[i], c.from_byte);
        if r.len() != w.len() {
            return Err(format!("{}: region {} has {} bytes, expected {}", who, i, r.len(), w.len()));
        }
        if &**r != &w[..] {
            let p = r.iter().zip(&w).position(|(a, b)| a != b);
            return Err(format!("{}: region {} ({} bytes) differs from offset {:?} (contents of another region or garbage)", who, i, w.len(), p));
        }
    }
    Ok(())
}

fn body(c: &Case) -> Result<(), String> {
    let (tx, rx) = ipc::channel::<(u32, Vec<IpcSharedMemory>)>().map_err(|e| e.to_string())?;
    let mut originals = Vec::new();
    for (i, &len) in c.lens.iter().enumerate() {
        let r = if c.from_byte { IpcSharedMemory::from_byte(0x40 + i as u8, len) } else { IpcSharedMemory::from_bytes(&want(i, len, false)) };
        originals.push(r);
    }
    check_all(&originals, c, "creator")?;
    let mut clones: Vec<Vec<IpcSharedMemory>> = Vec::new();
    for _ in 0..c.clones {
        let k: Vec<IpcSharedMemory> = originals.iter().map(|r| r.clone()).collect();
        check_all(&k, c, "clone")?;
        clones.push(k);
    }
    let to_send: Vec<IpcSharedMemory> = if c.clones > 0 { clones.pop().unwrap() } else { originals.iter().map(|r| r.clone()).collect() };
    if c.reader_fork {
        unsafe {
            let mut p2c = [0i32; 2];
            libc::pipe(p2c.as_mut_ptr());
            let pid = libc::fork();
            if pid == 0 {
                interpose::after_fork_in_child();
                libc::close(p2c[1]);
                drop(tx);
                drop(originals);
                drop(clones);
                drop(to_send);
                let (n, regs) = match rx.recv() {
                    Ok(x) => x,
                    Err(_) => libc::_exit(3),
                };
                drop(rx);
                let mut b = [0u8];
                libc::read(p2c[0], b.as_mut_ptr() as *mut _, 1);
                if n != 77 {
                    libc::_exit(4);
                }
                match check_all(&regs, c, "receiving process") {
                    Ok(()) => libc::_exit(0),
                    Err(e) => {
                        eprintln!("{}", e);
                        libc::_exit(1)
                    },
                }
            }
            libc::close(p2c[0]);
            drop(rx);
            tx.send((77, to_send)).map_err(|e| format!("send: {}", e))?;
            let mut later = Vec::new();
            if c.read_after_drop {
                drop(originals);
                drop(clones);
                drop(tx);
                for (i, &len) in c.lens.iter().enumerate() {
                    later.push(IpcSharedMemory::from_byte(0xE0 | i as u8, len));
                    later.push(IpcSharedMemory::from_bytes(&pattern(len, 900 + i as u64)));
                }
            }
            let b = [1u8];
            libc::write(p2c[1], b.as_ptr() as *const _, 1);
            libc::close(p2c[1]);
            let mut st = 0;
            libc::waitpid(pid, &mut st, 0);
            if !(libc::WIFEXITED(st) && libc::WEXITSTATUS(st) == 0) {
                return Err(format!("the receiving process did not read back the regions (status {:#x})", st));
            }
        }
        return Ok(());
    }
    tx.send((77, to_send)).map_err(|e| format!("send: {}", e))?;
    let (n, regs) = rx.recv().map_err(|e| format!("recv: {:?}", e))?;
    if n != 77 {
        return Err("data next to the regions changed".into());
    }
    let mut later = Vec::new();
    if c.read_after_drop {
        drop(originals);
        drop(clones);
        drop(tx);
        drop(rx);
        // the sender goes on and creates new regions of exactly the same lengths with other contents:
        // what the receiver holds must not change
        for (i, &len) in c.lens.iter().enumerate() {
            later.push(IpcSharedMemory::from_byte(0xE0 | i as u8, len));
            later.push(IpcSharedMemory::from_bytes(&pattern(len, 900 + i as u64)));
        }
    }
    check_all(&regs, c, "receiver")?;
    drop(later);
    // a clone made on the receiving side reads the same, too
    let again: Vec<IpcSharedMemory> = regs.iter().map(|r| r.clone()).collect();
    drop(regs);
    check_all(&again, c, "clone of a received region")
}

fn cfg_of(_: &Case) -> Cfg {
    Cfg { sched: !cfg!(feature = "inproc"), ..Default::default() }
}

pub fn cases(tier: Tier) -> Vec<Case> {
    let p = 4096usize;
    let mut lens: Vec<usize> = vec![0, 1, 2, 7, 9, p - 1, p, p + 1, 2 * p - 1, 2 * p, 2 * p + 1, 1 << 20, (2 << 20) + 1, (3 << 20) - 1];
    if !tier.is_quick() {
        lens.push(32 << 20);
        lens.push(3 * p + 17);
        // every length up to 70 bytes (word and cache-line remainders), windows around 1..4 pages,
        // and around the huge-page size
        lens.extend(3..=70usize);
        for k in 1..=4usize {
            for d in 2..=9usize {
                lens.push(k * p - d);
                lens.push(k * p + d);
            }
        }
        for d in [0usize, 1, 2, 7, 8, 4095, 4096, 4097] {
            lens.push((2 << 20) - d);
            lens.push((2 << 20) + d);
            lens.push((4 << 20) + d);
        }
        lens.sort();
        lens.dedup();
    }
    let mut v = Vec::new();
    let inproc = cfg!(feature = "inproc");
    let forks: Vec<bool> = if inproc { vec![false] } else { vec![false, true] };
    // single regions: every length x everything
    for &l in &lens {
        for from_byte in [false, true] {
            for clones in 0..=3usize {
                for &reader_fork in &forks {
                    for read_after_drop in [false, true] {
                        if tier.is_quick() && l >= (1 << 20) && clones > 1 {
                            continue;
                        }
                        v.push(Case { lens: vec![l], from_byte, clones, reader_fork, read_after_drop });
                    }
                }
            }
        }
    }
    // several regions per message: all ordered selections of 2 and 3 distinct boundary lengths
    let small: Vec<usize> = vec![0, 1, p - 1, p, p + 1, 2 * p + 1];
    for &a in &small {
        for &b in &small {
            if a == b {
                continue;
            }
            for &reader_fork in &forks {
                v.push(Case { lens: vec![a, b], from_byte: false, clones: 1, reader_fork, read_after_drop: true });
            }
            for &c3 in &small {
                if c3 == a || c3 == b {
                    continue;
                }
                if tier.is_quick() && (a + b + c3) % 3 != 0 {
                    continue;
                }
                v.push(Case { lens: vec![a, b, c3], from_byte: (a + b) % 2 == 0, clones: 0, reader_fork: false, read_after_drop: false });
            }
        }
    }
    // rotations of 4..8 regions
    let maxn = if tier.is_quick() { 4 } else { 8 };
    for n in 4..=maxn {
        for rot in 0..n {
            let ls: Vec<usize> = (0..n).map(|i| [0usize, 1, p - 1, p, p + 1, 2 * p - 1, 2 * p, 2 * p + 1][(i + rot) % 8]).collect();
            for &reader_fork in &forks {
                v.push(Case { lens: ls.clone(), from_byte: rot % 2 == 1, clones: rot % 4, reader_fork, read_after_drop: rot % 2 == 0 });
            }
        }
    }
    v
}

fn part(tier: Tier) -> Part {
    let mut p = Part::new();
    let cs = cases(tier);
    let mut n = 0u64;
    let mut fails = Vec::new();
    let mut mach = Vec::new();
    sweep(&cs, 300.0, &cfg_of, &body, &mut |_, c, out| {
        n += 1;
        match super::describe(out) {
            Ok(_) => {},
            Err(e) if e.starts_with("MACHINERY") => mach.push(format!("{} :: {:?}", e, c)),
            Err(e) => fails.push((c.clone(), e)),
        }
    });
    p.evaluations = n;
    p.distinct = n.saturating_sub(fails.len() as u64);
    p.count("cases", n);
    p.machinery = mach;
    p.sample(serde_json::to_value(&cs[cs.len() / 2]).unwrap());
    p.sample(serde_json::to_value(&cs[cs.len() - 1]).unwrap());
    for (c, e) in fails {
        p.fail(format!("{} :: {:?}", e, c), serde_json::to_value(&c).unwrap());
    }
    p
}

pub fn run(tier: Tier, part_only: bool) -> i32 {
    let t0 = std::time::Instant::now();
    // cheap check: both tiers run the thorough case list (about ten seconds on three builds)
    let own = part(Tier::Thorough);
    if part_only {
        return emit_part(&own);
    }
    let mut rep = Report::new("C05", tier, "exploration");
    rep.set("tiers", json!("the quick tier runs the thorough tier's cases as well"));
    rep.t0 = t0;
    own.merge_into(&mut rep);
    for v in ["memfd", "inproc"] {
        match run_variant_part(v, "C05", tier) {
            Ok(p) => p.merge_into(&mut rep),
            Err(e) => rep.machinery(e),
        }
    }
    rep.set("rule", json!("case = (lengths of the regions in one message, constructor from_bytes(pattern) / from_byte, clones made before sending 0..3, reader = same process or a forked child, read on receipt or after every sender-side copy and the carrying channel were dropped and the sender created new regions of the same lengths with other contents); single regions for every length in {0,1,2,7,9,P-1,P,P+1,2P-1,2P,2P+1,1 MiB,2 MiB+1,3 MiB-1 (+32 MiB, 3P+17 thorough)} x all combinations, every ordered pair and triple of distinct boundary lengths, rotations of 4 (..8) regions; on the os, memfd and in-process builds (no forked reader in-process); distinct by construction, all non-trivial"));
    rep.set("exhaustive", json!(true));
    rep.assume("platform-level zero-length regions are C18's; here the public IpcSharedMemory API is used");
    rep.finish()
}

pub fn replay(v: &Value) -> i32 {
    let Ok(c) = serde_json::from_value::<Case>(v["case"].clone()) else { return 2 };
    for r in 0..2 {
        let out = crate::exec::run_one(&cfg_of(&c), 300.0, &|| body(&c));
        println!("replay round {}: {:?} -> {:?}", r, c, super::describe(&out));
    }
    0
}
