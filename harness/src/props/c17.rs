//! C17 — stopping a router, by shutdown or proxy drop, is clean and complete.
//! E1: all schedules with <=B deviations of shutdown callers / add_route racers / senders
//! against the real router thread.
use super::c02::CLOCK;
use super::c07::Kind;
use super::e1::{self, sched_cfg, Scenario};
use crate::common::{Report, Tier};
use crate::exec::obs;
use crate::sched;
use ipc_channel::ipc::{self, IpcSender};
use ipc_channel::router::RouterProxy;
use serde::{Deserialize, Serialize};
use serde_json::{json, Value};
use std::sync::atomic::Ordering;
use std::sync::{Arc, Mutex};

#[derive(Clone, Copy, Debug, Serialize, Deserialize, PartialEq, Eq)]
pub enum Stop {
    /// shutdown() from this many tasks at once
    Shutdown(u8),
    DropProxy,
}

#[derive(Clone, Debug, Serialize, Deserialize)]
pub struct P {
    /// live routes: (kind, one message in flight when the stop begins)
    pub routes: Vec<(Kind, bool)>,
    pub stop: Stop,
    /// another task calls add_route while the stop is in progress
    pub racing_add: bool,
    /// another task keeps sending on the first route while the stop is in progress
    #[serde(default)]
    pub traffic: bool,
}

#[derive(Default)]
struct Rec {
    /// (route, stamp) of every callback invocation
    calls: Vec<(usize, u64)>,
    /// (route, stamp) of every callback drop
    drops: Vec<(usize, u64)>,
}

struct Guard(usize, Arc<Mutex<Rec>>);
impl Drop for Guard {
    fn drop(&mut self) {
        // what a callback owns may take time to release: a visible step before the (first) drop
        // is recorded, so that "shutdown() returned" can be ordered before it if the router lets it
        // (only the first drop of an execution: one such point is enough to separate the two, a
        // point per callback multiplies the schedules for nothing)
        static FIRST: std::sync::atomic::AtomicBool = std::sync::atomic::AtomicBool::new(true);
        if FIRST.swap(false, Ordering::SeqCst) {
            unsafe {
                libc::sched_yield();
            }
        }
        let s = CLOCK.fetch_add(1, Ordering::SeqCst);
        self.1.lock().unwrap().drops.push((self.0, s));
    }
}

fn callback(route: usize, rec: &Arc<Mutex<Rec>>) -> ipc_channel::router::RouterHandler {
    let g = Guard(route, rec.clone());
    let rec = rec.clone();
    Box::new(move |_m| {
        let _keep = &g;
        let s = CLOCK.fetch_add(1, Ordering::SeqCst);
        rec.lock().unwrap().calls.push((route, s));
    })
}

fn body(p: &P) -> Result<(), String> {
    let proxy = Arc::new(RouterProxy::new());
    let rec: Arc<Mutex<Rec>> = Arc::new(Mutex::new(Rec::default()));
    let mut txs: Vec<IpcSender<u32>> = Vec::new();
    let mut xbs: Vec<(usize, crossbeam_channel::Receiver<u32>)> = Vec::new();
    for (i, (kind, _)) in p.routes.iter().enumerate() {
        let (tx, rx) = ipc::channel::<u32>().map_err(|e| e.to_string())?;
        e1::inproc_point();
        match kind {
            Kind::Callback => proxy.add_route(rx.to_opaque(), callback(i, &rec)),
            Kind::Crossbeam => xbs.push((i, proxy.route_ipc_receiver_to_new_crossbeam_receiver(rx))),
        }
        txs.push(tx);
    }
    for (i, (_, inflight)) in p.routes.iter().enumerate() {
        if *inflight {
            txs[i].send(7).map_err(|e| format!("in-flight send: {}", e))?;
        }
    }
    let racing_route = p.routes.len();
    let (rtx, rrx) = ipc::channel::<u32>().map_err(|e| e.to_string())?;
    let racer = if p.racing_add {
        let (pr, rc) = (proxy.clone(), rec.clone());
        Some(std::thread::spawn(move || {
            e1::inproc_point();
            pr.add_route(rrx.to_opaque(), callback(racing_route, &rc));
            drop(pr);
        }))
    } else {
        drop(rrx);
        None
    };
    let traffic = if p.traffic && !txs.is_empty() {
        let t = txs[0].clone();
        Some(std::thread::spawn(move || {
            e1::inproc_point();
            let _ = t.send(21);
            e1::inproc_point();
            let _ = t.send(22);
        }))
    } else {
        None
    };
    let n_cb_main = p.routes.iter().filter(|(k, _)| *k == Kind::Callback).count();
    let stopped_at: u64;
    match p.stop {
        Stop::Shutdown(n) => {
            let mut hs = Vec::new();
            for _ in 1..n {
                let pr = proxy.clone();
                hs.push(std::thread::spawn(move || {
                    e1::inproc_point();
                    pr.shutdown();
                    let s = CLOCK.fetch_add(1, Ordering::SeqCst);
                    drop(pr);
                    s
                }));
            }
            e1::inproc_point();
            proxy.shutdown();
            let mut t = CLOCK.fetch_add(1, Ordering::SeqCst);
            // "when shutdown returns ... every registered callback has been dropped so that
            // downstream consumers observe disconnection"
            {
                let r = rec.lock().unwrap();
                let dropped = r.drops.iter().filter(|(i, _)| *i < racing_route).count();
                if dropped != n_cb_main {
                    return Err(format!(
                        "[shutdown-incomplete] shutdown() returned but only {} of {} registered callbacks have been dropped",
                        dropped, n_cb_main
                    ));
                }
            }
            for (i, crx) in &xbs {
                loop {
                    match crx.try_recv() {
                        Ok(_) => continue,
                        Err(crossbeam_channel::TryRecvError::Disconnected) => break,
                        Err(crossbeam_channel::TryRecvError::Empty) => {
                            return Err(format!("[shutdown-incomplete] shutdown() returned but the forwarding receiver of route {} is still connected", i))
                        },
                    }
                }
            }
            for h in hs {
                let s = h.join().map_err(|_| "[stop-panic] a shutdown caller panicked".to_string())?;
                t = t.min(s);
            }
            // a second call is idempotent
            proxy.shutdown();
            stopped_at = t;
        },
        Stop::DropProxy => {
            // make sure nobody else holds the proxy any more
            if let Some(h) = racer {
                h.join().map_err(|_| "racer panicked".to_string())?;
                // (already joined; shadow below)
                drop(proxy);
                sched::settle();
                stopped_at = CLOCK.fetch_add(1, Ordering::SeqCst);
                if let Some(t) = traffic {
                    t.join().map_err(|_| "[stop-panic] the traffic task panicked".to_string())?;
                }
                return finish(p, rec, txs, rtx, xbs, stopped_at, racing_route, None);
            }
            drop(proxy);
            sched::settle();
            stopped_at = CLOCK.fetch_add(1, Ordering::SeqCst);
            if let Some(t) = traffic {
                t.join().map_err(|_| "[stop-panic] the traffic task panicked".to_string())?;
            }
            return finish(p, rec, txs, rtx, xbs, stopped_at, racing_route, None);
        },
    }
    if let Some(t) = traffic {
        t.join().map_err(|_| "[stop-panic] the traffic task panicked".to_string())?;
    }
    finish(p, rec, txs, rtx, xbs, stopped_at, racing_route, racer.map(|r| (r, proxy)))
}

#[allow(clippy::too_many_arguments)]
fn finish(
    p: &P,
    rec: Arc<Mutex<Rec>>,
    txs: Vec<IpcSender<u32>>,
    rtx: IpcSender<u32>,
    xbs: Vec<(usize, crossbeam_channel::Receiver<u32>)>,
    stopped_at: u64,
    racing_route: usize,
    racer: Option<(std::thread::JoinHandle<()>, Arc<RouterProxy>)>,
) -> Result<(), String> {
    if let Some((h, proxy)) = racer {
        h.join().map_err(|_| "[stop-panic] the add_route racer panicked".to_string())?;
        // a route offered after shutdown is dropped without ever being invoked
        let (t2, r2) = ipc::channel::<u32>().map_err(|e| e.to_string())?;
        e1::inproc_point();
        proxy.add_route(r2.to_opaque(), callback(racing_route + 1, &rec));
        let _ = t2.send(1);
        drop(proxy);
        drop(t2);
    }
    // further sends on the old routes
    for tx in &txs {
        let _ = tx.send(9);
    }
    let _ = rtx.send(9);
    sched::settle();
    let r = rec.lock().unwrap();
    // (handlers live in a RandomState HashMap: the order in which a stopping router drops them is
    // not a function of the schedule, so the observation lists them sorted)
    let mut dropped: Vec<usize> = r.drops.iter().map(|c| c.0).collect();
    dropped.sort();
    obs(format!("calls={:?} drops={:?}", r.calls.iter().map(|c| c.0).collect::<Vec<_>>(), dropped));
    if let Some((route, s)) = r.calls.iter().find(|(_, s)| *s > stopped_at) {
        return Err(format!("[callback-after-stop] callback of route {} ran (stamp {}) after the router was stopped (stamp {})", route, s, stopped_at));
    }
    if r.calls.iter().any(|(route, _)| *route == racing_route + 1) {
        return Err("[callback-after-stop] a route offered after shutdown was invoked".into());
    }
    let mut expect_dropped: Vec<usize> = p.routes.iter().enumerate().filter(|(_, (k, _))| *k == Kind::Callback).map(|(i, _)| i).collect();
    if p.racing_add {
        expect_dropped.push(racing_route);
        if matches!(p.stop, Stop::Shutdown(_)) {
            expect_dropped.push(racing_route + 1);
        }
    }
    for i in expect_dropped {
        let n = r.drops.iter().filter(|(d, _)| *d == i).count();
        if n != 1 {
            return Err(format!("[stop-incomplete] callback of route {} was dropped {} times by the time everything was quiet", i, n));
        }
    }
    for (i, crx) in &xbs {
        loop {
            match crx.try_recv() {
                Ok(_) => continue,
                Err(crossbeam_channel::TryRecvError::Disconnected) => break,
                Err(crossbeam_channel::TryRecvError::Empty) => {
                    return Err(format!("[stop-incomplete] forwarding receiver of route {} still connected after the router was stopped and everything is quiet", i))
                },
            }
        }
    }
    Ok(())
}

pub fn scenarios(tier: Tier) -> Vec<Scenario> {
    let mut v = Vec::new();
    let mut add = |p: P, bound: u32| {
        let name = format!("{:?}", p);
        let mut cfg = sched_cfg();
        cfg.post_points = true;
        // wide scenarios: every non-default choice counts as a deviation
        cfg.strict_deviations = p.routes.len() > 4;
        // in-process build: every library operation is preceded by a harness point at which the
        // choice among the *other* tasks is free; with three or more helper tasks those free choices
        // multiply, so there every non-default choice counts
        let helpers = match p.stop {
            Stop::Shutdown(n) => n as usize - 1,
            Stop::DropProxy => 0,
        } + p.racing_add as usize + p.traffic as usize;
        if cfg!(feature = "inproc") && helpers >= 2 {
            cfg.strict_deviations = true;
        }
        cfg.yield_alts = cfg!(feature = "inproc") && !cfg.strict_deviations;
        v.push(Scenario::new(name, cfg, bound, move || body(&p)));
    };
    use Kind::*;
    // many routes, several shutdown callers, few deviations
    add(P { routes: (0..8).map(|i| (if i % 2 == 0 { Callback } else { Crossbeam }, i % 3 == 0)).collect(), stop: Stop::Shutdown(4), racing_add: true, traffic: true }, if tier.is_quick() { 1 } else { 2 });
    add(P { routes: (0..16).map(|i| (if i % 3 == 0 { Crossbeam } else { Callback }, i % 4 == 1)).collect(), stop: Stop::DropProxy, racing_add: false, traffic: true }, if tier.is_quick() { 1 } else { 2 });
    if tier.is_quick() {
        add(P { routes: vec![], stop: Stop::Shutdown(1), racing_add: false, traffic: false }, 3);
        add(P { routes: vec![(Callback, true)], stop: Stop::Shutdown(1), racing_add: false, traffic: false }, 3);
        add(P { routes: vec![(Crossbeam, true)], stop: Stop::Shutdown(1), racing_add: true, traffic: false }, 2);
        add(P { routes: vec![(Crossbeam, false), (Callback, false)], stop: Stop::Shutdown(1), racing_add: true, traffic: false }, 2);
        add(P { routes: vec![(Callback, true)], stop: Stop::Shutdown(2), racing_add: false, traffic: false }, 2);
        add(P { routes: vec![(Callback, true), (Crossbeam, true)], stop: Stop::DropProxy, racing_add: false, traffic: false }, 3);
        add(P { routes: vec![], stop: Stop::DropProxy, racing_add: false, traffic: false }, 3);
        add(P { routes: vec![(Callback, false)], stop: Stop::DropProxy, racing_add: true, traffic: false }, 2);
        add(P { routes: vec![(Callback, true), (Callback, false)], stop: Stop::Shutdown(2), racing_add: true, traffic: false }, 1);
        add(P { routes: vec![(Callback, false)], stop: Stop::Shutdown(1), racing_add: false, traffic: true }, 2);
        add(P { routes: vec![(Crossbeam, false), (Callback, true)], stop: Stop::Shutdown(1), racing_add: false, traffic: true }, 2);
        add(P { routes: vec![(Callback, false)], stop: Stop::DropProxy, racing_add: false, traffic: true }, 2);
    } else {
        let route_sets: Vec<Vec<(Kind, bool)>> = vec![
            vec![],
            vec![(Callback, false)],
            vec![(Callback, true)],
            vec![(Crossbeam, false)],
            vec![(Crossbeam, true)],
            vec![(Callback, true), (Crossbeam, false)],
            vec![(Crossbeam, true), (Callback, true)],
            vec![(Callback, false), (Callback, true)],
        ];
        for rs in &route_sets {
            for stop in [Stop::Shutdown(1), Stop::Shutdown(2), Stop::DropProxy] {
                for racing in [false, true] {
                    let b = if rs.len() + racing as usize + matches!(stop, Stop::Shutdown(2)) as usize <= 1 { 4 } else { 3 };
                    // two shutdown callers plus a registering task (four or five tasks with the
                    // router): one deviation fewer, so that the bound is completed rather than capped
                    let widest = !rs.is_empty() && racing && matches!(stop, Stop::Shutdown(2));
                    add(P { routes: rs.clone(), stop, racing_add: racing, traffic: false }, if widest { b - 1 } else { b });
                    if !rs.is_empty() {
                        add(P { routes: rs.clone(), stop, racing_add: racing, traffic: true }, if widest { 1 } else { 2 });
                    }
                }
            }
        }
    }
    v
}

pub fn run(tier: Tier, part_only: bool) -> i32 {
    super::run_with_inproc("C17", tier, part_only, "model_checking", &run_all)
}

fn run_all(rep: &mut Report, tier: Tier) {
    let scs = scenarios(tier);
    let tot = e1::run_scenarios(rep, &scs, &e1::strict_judge, if tier.is_quick() { 40.0 } else { 3000.0 });
    rep.set("deviation_bound_min", json!(tot.min_bound));
    rep.set("deviation_bound_max", json!(tot.max_bound));
    rep.set("evaluations", json!(tot.execs));
    rep.set("distinct_nontrivial", json!(tot.with_switch));
    rep.set("rule", json!("one evaluation = one complete schedule (<= bound deviations) of: 0-2 live routes (callback / crossbeam forwarding, optionally one message in flight), stopped by shutdown() from 1-2 tasks or by dropping the proxy, optionally racing an add_route from another task, followed by further sends on the old routes and a wait for quiescence; schedules are distinct by construction (the depth-first search never repeats a choice sequence) and a schedule counts as non-trivial when it contains at least one context switch; enumerated cases are distinct by construction"));
    rep.assume("'after the proxy has been dropped' is checked at quiescence (no task can run), as the statement gives no synchronisation point");
}

pub fn replay(tier: Tier, v: &Value) -> i32 {
    let v = if v.get("variant").is_some() { &v["case"] } else { v };
    let mut scs = scenarios(tier);
    scs.extend(scenarios(if tier.is_quick() { Tier::Thorough } else { Tier::Quick }));
    e1::replay(&scs, v)
}
