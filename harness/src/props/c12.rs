//! C12 — a sender crashing mid-send cannot corrupt a message or falsely close a channel.
//! Fault enumeration with real processes: the sender is a forked child killed (SIGKILL)
//! immediately before its k-th transport system call, for every k; the receiver observes
//! afterwards by blocking recv (only where a result is due), try_recv, a receiver set, or a
//! router callback; optionally another process holds a surviving sender handle.
use super::sweep;
use crate::common::{first_diff, pattern, Report, Tier};
use crate::exec::obs;
use crate::interpose::{self, Cfg};
use ipc_channel::ipc::{self, IpcError, IpcReceiver, IpcReceiverSet, IpcSelectionResult, IpcSender, IpcSharedMemory, TryRecvError};
use ipc_channel::platform::OsIpcSender;
use ipc_channel::router::RouterProxy;
use serde::{Deserialize, Serialize};
use serde_json::{json, Value};
use std::collections::{HashSet, VecDeque};

type Msg = (u32, Vec<u8>, Option<IpcSender<u32>>, Option<IpcSharedMemory>);

#[derive(Clone, Copy, Debug, Serialize, Deserialize, PartialEq, Eq, Hash)]
pub enum Watch {
    Blocking,
    Try,
    Select,
    Router,
    /// the receiver is already blocked in recv (or mid-reassembly) while the sender dies
    BlockedDuring,
    /// try_recv_timeout: long when a result is due (it must come back early), short otherwise
    Timed,
}

#[derive(Clone, Debug, Serialize, Deserialize, PartialEq, Eq, Hash)]
pub struct Case {
    pub packets: usize,
    pub attach: bool,
    pub preceding: bool,
    /// die before the k-th transport system call of the send (k = n_calls: right after it returned)
    pub crash_k: usize,
    pub n_calls: usize,
    pub survivor: bool,
    pub watch: Watch,
}

const ID_PRE: u32 = 1;
const ID_CUT: u32 = 2;
const ID_SURV: u32 = 3;

fn data_len(packets: usize) -> usize {
    let m = OsIpcSender::get_max_fragment_size();
    if packets <= 1 {
        100
    } else {
        (packets - 1) * m + 200
    }
}

fn mk(id: u32, packets: usize, attach: bool) -> Msg {
    let d = pattern(data_len(packets), id as u64);
    if attach {
        let (t, r) = ipc::channel::<u32>().unwrap();
        std::mem::forget(r); // keep the channel open for the life of this (short-lived) process
        (id, d, Some(t), Some(IpcSharedMemory::from_bytes(&pattern(3000, 8))))
    } else {
        (id, d, None, None)
    }
}

/// dry run: how many transport system calls does this send make?
pub fn measure(packets: usize, attach: bool) -> Result<usize, String> {
    let cfg = Cfg { fake_sndbuf: Some(4608), ..Default::default() };
    let out = crate::exec::run_one(&cfg, 60.0, &|| {
        let (tx, _rx) = ipc::channel::<Msg>().map_err(|e| e.to_string())?;
        let m = mk(ID_CUT, packets, attach);
        interpose::arm();
        tx.send(m).map_err(|e| e.to_string())?;
        let (_, calls) = interpose::disarm();
        obs(format!("{}", calls));
        Ok(())
    });
    let r = out.result.ok_or("measure run died")?;
    r.obs.first().and_then(|s| s.parse().ok()).ok_or_else(|| format!("measure: {:?}", r.status))
}

#[derive(Debug, Clone, PartialEq)]
enum Seen {
    Msg(u32),
    /// an error result that is not 'disconnected'
    Error(String),
    Empty,
    Closed,
}

fn classify(m: Msg, packets: usize, attach: bool) -> Result<Seen, String> {
    let (id, d, s, r) = m;
    let want_packets = if id == ID_CUT { packets } else { 1 };
    let want = pattern(data_len(want_packets), id as u64);
    if d.len() != want.len() {
        return Err(format!("[corrupt] message {} presented as complete with {} of {} bytes", id, d.len(), want.len()));
    }
    if let Some(p) = first_diff(&d, &want) {
        return Err(format!("[corrupt] message {} presented as complete but differs from offset {}", id, p));
    }
    if id == ID_CUT && attach {
        let reg = r.ok_or("[corrupt] message delivered without its region")?;
        if &*reg != &pattern(3000, 8)[..] {
            return Err("[corrupt] attached region differs".into());
        }
        if s.is_none() {
            return Err("[corrupt] message delivered without its sender attachment".into());
        }
    }
    Ok(Seen::Msg(id))
}

enum Watcher {
    /// 0 = try_recv, 1 = recv where a result is due, 2 = try_recv_timeout
    Direct(IpcReceiver<Msg>, u8),
    Set(IpcReceiverSet, u64, VecDeque<Seen>),
    Router(crossbeam_channel::Receiver<Seen>),
}

struct RGuard(crossbeam_channel::Sender<Seen>);
impl Drop for RGuard {
    fn drop(&mut self) {
        let _ = self.0.send(Seen::Closed);
    }
}

impl Watcher {
    /// `due`: the ideal channel has a result for a blocking call right now
    fn next(&mut self, due: bool, packets: usize, attach: bool) -> Result<Option<Seen>, String> {
        match self {
            Watcher::Direct(rx, mode) => {
                let res = match (*mode, due) {
                    (1, true) => rx.recv().map_err(TryRecvError::IpcError),
                    (2, true) => rx.try_recv_timeout(std::time::Duration::from_secs(30)),
                    (2, false) => rx.try_recv_timeout(std::time::Duration::from_millis(2)),
                    _ => rx.try_recv(),
                };
                Ok(Some(match res {
                    Ok(m) => classify(m, packets, attach)?,
                    Err(TryRecvError::Empty) => Seen::Empty,
                    Err(TryRecvError::IpcError(IpcError::Disconnected)) => Seen::Closed,
                    Err(TryRecvError::IpcError(e)) => Seen::Error(format!("{:?}", e)),
                }))
            },
            Watcher::Set(set, id, q) => {
                if q.is_empty() {
                    if !due {
                        return Ok(None);
                    }
                    for ev in set.select().map_err(|e| format!("select failed as a whole: {}", e))? {
                        match ev {
                            IpcSelectionResult::MessageReceived(i, m) => {
                                if i != *id {
                                    return Err("event for another id".into());
                                }
                                match m.to::<Msg>() {
                                    Ok(m) => q.push_back(classify(m, packets, attach)?),
                                    Err(e) => q.push_back(Seen::Error(format!("{}", e))),
                                }
                            },
                            IpcSelectionResult::ChannelClosed(_) => q.push_back(Seen::Closed),
                        }
                    }
                }
                Ok(q.pop_front())
            },
            Watcher::Router(xrx) => {
                if !due {
                    return Ok(xrx.try_recv().ok());
                }
                Ok(Some(xrx.recv().map_err(|_| "router callback vanished".to_string())?))
            },
        }
    }
}

/// The receiver thread is blocked in a real recv() while the sender process runs to its crash
/// point and dies (no scheduler: real blocking; every wait of the orchestrator is for an event
/// that is due, the pool watchdog catches a hang).
fn body_blocked_during(c: &Case) -> Result<(), String> {
    let (tx, rx) = ipc::channel::<Msg>().map_err(|e| e.to_string())?;
    if c.preceding {
        tx.send(mk(ID_PRE, 1, false)).map_err(|e| e.to_string())?;
    }
    // fork both helper processes first (single-threaded), each waits for a start byte
    let mut surv: Option<(i32, i32, i32)> = None;
    unsafe {
        if c.survivor {
            let mut p2c = [0i32; 2];
            let mut c2p = [0i32; 2];
            libc::pipe(p2c.as_mut_ptr());
            libc::pipe(c2p.as_mut_ptr());
            let pid = libc::fork();
            if pid == 0 {
                interpose::after_fork_in_child();
                libc::close(p2c[1]);
                libc::close(c2p[0]);
                drop(rx);
                let mut b = [0u8];
                if libc::read(p2c[0], b.as_mut_ptr() as *mut _, 1) == 1 {
                    let ok = tx.send(mk(ID_SURV, 1, false)).is_ok();
                    let a = [ok as u8];
                    libc::write(c2p[1], a.as_ptr() as *const _, 1);
                    libc::read(p2c[0], b.as_mut_ptr() as *mut _, 1);
                }
                libc::_exit(0);
            }
            libc::close(p2c[0]);
            libc::close(c2p[1]);
            surv = Some((pid, p2c[1], c2p[0]));
        }
    }
    let mut go = [0i32; 2];
    let crash_pid;
    unsafe {
        libc::pipe(go.as_mut_ptr());
        let pid = libc::fork();
        if pid == 0 {
            interpose::after_fork_in_child();
            libc::close(go[1]);
            drop(rx);
            if let Some((_, w, r)) = surv {
                libc::close(w);
                libc::close(r);
            }
            let mut b = [0u8];
            libc::read(go[0], b.as_mut_ptr() as *mut _, 1);
            let m = mk(ID_CUT, c.packets, c.attach);
            interpose::set_crash_at(Some(c.crash_k));
            interpose::arm();
            let _ = tx.send(m);
            interpose::die_now();
        }
        libc::close(go[0]);
        crash_pid = pid;
    }
    drop(tx);
    // the receiver blocks first, then the sender is let loose
    let (rtx, rrx) = std::sync::mpsc::channel::<Result<Seen, String>>();
    let (packets, attach) = (c.packets, c.attach);
    let th = std::thread::spawn(move || loop {
        let s = match rx.recv() {
            Ok(m) => classify(m, packets, attach),
            Err(IpcError::Disconnected) => Ok(Seen::Closed),
            Err(e) => Ok(Seen::Error(format!("{:?}", e))),
        };
        let end = matches!(s, Ok(Seen::Closed) | Err(_));
        if rtx.send(s).is_err() || end {
            break;
        }
    });
    unsafe {
        let b = [1u8];
        libc::write(go[1], b.as_ptr() as *const _, 1);
        libc::close(go[1]);
        let mut st = 0;
        libc::waitpid(crash_pid, &mut st, 0);
        if !(libc::WIFSIGNALED(st) && libc::WTERMSIG(st) == libc::SIGKILL) {
            return Err(format!("MACHINERY: the crashing sender ended with status {:#x} instead of SIGKILL", st));
        }
    }
    let mut log = Vec::new();
    let mut next = |log: &mut Vec<Seen>| -> Result<Seen, String> {
        let s = rrx.recv().map_err(|_| "receiver thread ended unexpectedly".to_string())??;
        log.push(s.clone());
        Ok(s)
    };
    let mut cut_seen = false;
    let mut pre_seen = !c.preceding;
    if let Some((spid, cw, cr)) = surv {
        unsafe {
            let b = [1u8];
            libc::write(cw, b.as_ptr() as *const _, 1);
            let mut a = [0u8];
            if libc::read(cr, a.as_mut_ptr() as *mut _, 1) != 1 || a[0] != 1 {
                return Err("[survivor-cannot-send] the surviving sender's send failed".into());
            }
        }
        let mut n = 0;
        loop {
            n += 1;
            if n > 6 {
                return Err(format!("the surviving sender's message never arrived: {:?}", log));
            }
            match next(&mut log)? {
                Seen::Msg(ID_PRE) if !pre_seen => pre_seen = true,
                Seen::Msg(ID_CUT) if !cut_seen && pre_seen => cut_seen = true,
                Seen::Error(_) => {},
                Seen::Msg(ID_SURV) if pre_seen => break,
                Seen::Closed => return Err(format!("[closed-while-survivor] a receiver blocked in recv was told 'disconnected' although another process still holds a sender handle (crash at call {} of {})", c.crash_k, c.n_calls)),
                other => return Err(format!("a receiver blocked during the crash saw {:?} (log {:?})", other, log)),
            }
        }
        unsafe {
            libc::close(cw);
            libc::close(cr);
            let mut st = 0;
            libc::waitpid(spid, &mut st, 0);
        }
    }
    let mut n = 0;
    loop {
        n += 1;
        if n > 6 {
            return Err(format!("the receiver never reached the end: {:?}", log));
        }
        match next(&mut log)? {
            Seen::Msg(ID_PRE) if !pre_seen => pre_seen = true,
            Seen::Msg(ID_CUT) if !cut_seen && pre_seen && !c.survivor => cut_seen = true,
            Seen::Error(_) if !c.survivor => {},
            Seen::Closed => break,
            other => return Err(format!("after the last sender was gone a blocked receiver saw {:?} (log {:?})", other, log)),
        }
    }
    let _ = th.join();
    if !pre_seen {
        return Err("[completed-message-lost] the message completed before the crash was not delivered".into());
    }
    if c.crash_k >= c.n_calls && !cut_seen {
        return Err("[completed-message-lost] the send had returned before the process died, but the message was not delivered".into());
    }
    obs(format!("{:?}", log));
    Ok(())
}

pub fn body(c: &Case) -> Result<(), String> {
    if c.watch == Watch::BlockedDuring {
        return body_blocked_during(c);
    }
    let (tx, rx) = ipc::channel::<Msg>().map_err(|e| e.to_string())?;
    if c.preceding {
        tx.send(mk(ID_PRE, 1, false)).map_err(|e| e.to_string())?;
    }
    // the surviving sender, if any: another process holding its own copy of the handle
    let mut surv: Option<(i32, i32, i32)> = None;
    if c.survivor {
        unsafe {
            let mut p2c = [0i32; 2];
            let mut c2p = [0i32; 2];
            libc::pipe(p2c.as_mut_ptr());
            libc::pipe(c2p.as_mut_ptr());
            let pid = libc::fork();
            if pid == 0 {
                interpose::after_fork_in_child();
                libc::close(p2c[1]);
                libc::close(c2p[0]);
                drop(rx);
                let mut b = [0u8];
                if libc::read(p2c[0], b.as_mut_ptr() as *mut _, 1) == 1 {
                    let ok = tx.send(mk(ID_SURV, 1, false)).is_ok();
                    let a = [ok as u8];
                    libc::write(c2p[1], a.as_ptr() as *const _, 1);
                    // stay alive (holding the handle) until told to go
                    libc::read(p2c[0], b.as_mut_ptr() as *mut _, 1);
                }
                libc::_exit(0);
            }
            libc::close(p2c[0]);
            libc::close(c2p[1]);
            surv = Some((pid, p2c[1], c2p[0]));
        }
    }
    // the crashing sender
    unsafe {
        let pid = libc::fork();
        if pid == 0 {
            interpose::after_fork_in_child();
            drop(rx);
            if let Some((_, w, r)) = surv {
                libc::close(w);
                libc::close(r);
            }
            let m = mk(ID_CUT, c.packets, c.attach);
            interpose::set_crash_at(Some(c.crash_k));
            interpose::arm();
            let _ = tx.send(m);
            interpose::die_now();
        }
        let mut st = 0;
        libc::waitpid(pid, &mut st, 0);
        if !(libc::WIFSIGNALED(st) && libc::WTERMSIG(st) == libc::SIGKILL) {
            return Err(format!("MACHINERY: the crashing sender ended with status {:#x} instead of SIGKILL", st));
        }
    }
    drop(tx);
    // observe
    let mut keep_proxy = None;
    let mut w = match c.watch {
        Watch::Blocking => Watcher::Direct(rx, 1),
        Watch::Try => Watcher::Direct(rx, 0),
        Watch::Timed => Watcher::Direct(rx, 2),
        Watch::Select => {
            let mut set = IpcReceiverSet::new().map_err(|e| e.to_string())?;
            let id = set.add(rx).map_err(|e| e.to_string())?;
            Watcher::Set(set, id, VecDeque::new())
        },
        Watch::BlockedDuring => unreachable!(),
        Watch::Router => {
            let proxy = RouterProxy::new();
            let (xtx, xrx) = crossbeam_channel::unbounded::<Seen>();
            let g = RGuard(xtx.clone());
            let (packets, attach) = (c.packets, c.attach);
            proxy.add_route(
                rx.to_opaque(),
                Box::new(move |m| {
                    let _k = &g;
                    let s = match m.to::<Msg>() {
                        Ok(m) => match classify(m, packets, attach) {
                            Ok(s) => s,
                            Err(e) => Seen::Error(format!("VIOLATION {}", e)),
                        },
                        Err(e) => Seen::Error(format!("{}", e)),
                    };
                    let _ = xtx.send(s);
                }),
            );
            keep_proxy = Some(proxy);
            Watcher::Router(xrx)
        },
    };
    let mut log: Vec<Seen> = Vec::new();
    let mut step = |w: &mut Watcher, due: bool, log: &mut Vec<Seen>| -> Result<Option<Seen>, String> {
        let s = w.next(due, c.packets, c.attach)?;
        if let Some(Seen::Error(e)) = &s {
            if e.starts_with("VIOLATION") {
                return Err(e.clone());
            }
        }
        if let Some(x) = &s {
            log.push(x.clone());
        }
        Ok(s)
    };
    if c.preceding {
        match step(&mut w, true, &mut log)? {
            Some(Seen::Msg(ID_PRE)) => {},
            other => return Err(format!("[completed-message-lost] the message whose send had returned before the crash was not delivered first: {:?}", other)),
        }
    }
    let mut cut_seen = false;
    if !c.survivor {
        // no handle survives: the interrupted message arrives intact or not as a message, then the end
        let mut n = 0;
        loop {
            n += 1;
            if n > 4 {
                return Err(format!("the receiver keeps getting results without reaching the end: {:?}", log));
            }
            match step(&mut w, true, &mut log)? {
                Some(Seen::Msg(ID_CUT)) if !cut_seen => cut_seen = true,
                Some(Seen::Error(_)) => {},
                Some(Seen::Closed) => break,
                other => return Err(format!("after the crash (no surviving sender) the receiver saw {:?}", other)),
            }
        }
    } else {
        let (_, cw, cr) = surv.unwrap();
        // nothing is due for certain: only non-blocking looks
        for _ in 0..2 {
            match step(&mut w, false, &mut log)? {
                None | Some(Seen::Empty) => break,
                Some(Seen::Msg(ID_CUT)) if !cut_seen => cut_seen = true,
                Some(Seen::Error(_)) => {},
                Some(Seen::Closed) => {
                    return Err(format!("[closed-while-survivor] the receiver was told 'disconnected' although another process still holds a sender handle (crash at call {} of {})", c.crash_k, c.n_calls))
                },
                other => return Err(format!("after the crash the receiver saw {:?}", other)),
            }
        }
        // messages from the surviving sender keep arriving
        unsafe {
            let b = [1u8];
            libc::write(cw, b.as_ptr() as *const _, 1);
            let mut a = [0u8];
            if libc::read(cr, a.as_mut_ptr() as *mut _, 1) != 1 || a[0] != 1 {
                return Err("[survivor-cannot-send] the surviving sender's send failed".into());
            }
        }
        let mut n = 0;
        loop {
            n += 1;
            if n > 4 {
                return Err(format!("the surviving sender's message never arrived: {:?}", log));
            }
            match step(&mut w, true, &mut log)? {
                Some(Seen::Msg(ID_SURV)) => break,
                Some(Seen::Msg(ID_CUT)) if !cut_seen => cut_seen = true,
                Some(Seen::Error(_)) => {},
                Some(Seen::Closed) => {
                    return Err(format!("[closed-while-survivor] the receiver was told 'disconnected' although another process still holds a sender handle (crash at call {} of {})", c.crash_k, c.n_calls))
                },
                other => return Err(format!("waiting for the survivor's message the receiver saw {:?}", other)),
            }
        }
        unsafe {
            libc::close(cw);
            libc::close(cr);
            let mut st = 0;
            libc::waitpid(surv.unwrap().0, &mut st, 0);
        }
        match step(&mut w, true, &mut log)? {
            Some(Seen::Closed) => {},
            other => return Err(format!("after the last sender exited the receiver saw {:?} instead of the end", other)),
        }
    }
    if c.crash_k >= c.n_calls && !cut_seen {
        return Err("[completed-message-lost] the send had returned before the process died, but the message was not delivered".into());
    }
    obs(format!("{:?}", log));
    if let Some(p) = keep_proxy {
        std::mem::forget(p);
        return Ok(());
    }
    // whatever was received with a message that never completed has to be released
    drop(w);
    let snap = interpose::snapshot();
    if !snap.open_fds.is_empty() {
        return Err(format!("[leak-after-truncated-transfer] descriptors received with the interrupted message are still open in the receiving process: {:?}", snap.open_fds));
    }
    Ok(())
}

pub fn cfg_of(c: &Case) -> Cfg {
    Cfg { sched: c.watch != Watch::BlockedDuring, fake_sndbuf: Some(4608), ..Default::default() }
}

pub fn cases(tier: Tier) -> Result<Vec<Case>, String> {
    let mut v = Vec::new();
    let packets: Vec<usize> = if tier.is_quick() { vec![1, 2, 4] } else { vec![1, 2, 3, 4, 5, 6, 7, 8, 12] };
    for &p in &packets {
        for attach in [false, true] {
            let n = measure(p, attach)?;
            for k in 0..=n {
                for survivor in [false, true] {
                    for watch in [Watch::Blocking, Watch::Try, Watch::Timed, Watch::Select, Watch::Router, Watch::BlockedDuring] {
                        for preceding in [false, true] {
                            if tier.is_quick() && preceding && !(watch == Watch::Blocking || watch == Watch::Select) {
                                continue;
                            }
                            v.push(Case { packets: p, attach, preceding, crash_k: k, n_calls: n, survivor, watch });
                        }
                    }
                }
            }
        }
    }
    Ok(v)
}

/// The crash cases seen through one kind of observer, for the checks of the properties that
/// observer belongs to (C03: direct receives, C06: receiver set, C07: router): a 3-packet message
/// without and with attachments, every crash index, with and without a surviving sender.
pub fn cases_for(watches: &[Watch]) -> Result<Vec<Case>, String> {
    let mut v = Vec::new();
    for attach in [false, true] {
        let n = measure(3, attach)?;
        for k in 0..=n {
            for survivor in [false, true] {
                for w in watches {
                    v.push(Case { packets: 3, attach, preceding: false, crash_k: k, n_calls: n, survivor, watch: *w });
                }
            }
        }
    }
    Ok(v)
}

/// run `cases_for` inside another property's report
pub fn run_for(rep: &mut Report, watches: &[Watch], what: &str) -> u64 {
    if cfg!(feature = "inproc") {
        return 0;
    }
    let cs = match cases_for(watches) {
        Ok(c) => c,
        Err(e) => {
            rep.machinery(e);
            return 0;
        },
    };
    let mut n = 0u64;
    let mut fails = Vec::new();
    let mut mach = Vec::new();
    sweep(&cs, 60.0, &cfg_of, &body, &mut |_, c, out| {
        n += 1;
        match super::describe(out) {
            Ok(_) => {},
            Err(e) if e.contains("MACHINERY") => mach.push(format!("{} :: {:?}", e, c)),
            Err(e) => fails.push((c.clone(), e)),
        }
    });
    for m in mach {
        rep.machinery(m);
    }
    for (c, e) in fails {
        rep.fail(&format!("{} :: {} :: {:?}", e, what, c), json!({"engine": "crash-case", "case": c}));
    }
    rep.set("sender_crash_cases", json!(n));
    n
}

pub fn run(tier: Tier, _part: bool) -> i32 {
    let mut rep = Report::new("C12", tier, "fault_enumeration");
    // cheap check: both tiers run the thorough case list
    let cs = match cases(Tier::Thorough) {
        Ok(c) => c,
        Err(e) => {
            rep.machinery(e);
            return rep.finish();
        },
    };
    let mut n = 0u64;
    let mut outcomes: HashSet<String> = HashSet::new();
    let mut fails = Vec::new();
    sweep(&cs, 60.0, &cfg_of, &body, &mut |_, c, out| {
        n += 1;
        match super::describe(out) {
            Ok(o) => {
                outcomes.insert(format!("{}/{}/{}/{}/{:?}/{}", c.packets, c.attach, c.crash_k, c.survivor, c.watch, o));
            },
            Err(e) if e.contains("MACHINERY") => rep.machinery(format!("{} :: {:?}", e, c)),
            Err(e) => fails.push((c.clone(), e)),
        }
    });
    for (c, e) in fails {
        rep.fail(&format!("{} :: {:?}", e, c), serde_json::to_value(&c).unwrap());
    }
    rep.set("evaluations", json!(n));
    rep.set("distinct_nontrivial", json!(outcomes.len()));
    rep.set("tiers", json!("the quick tier runs the thorough tier's cases as well (the whole check takes about a second)"));
    rep.set("rule", json!("case = (message of 1..8 and 12 packets [1,2,4 quick], with/without sender+region, 0/1 completed message before, crash index k = every transport system call boundary of that send 0..=N [N measured by a dry run: socketpair, sendmsg, each send, each close], 0/1 surviving sender handle in another process, observer in {blocking recv where a result is due, try_recv, try_recv_timeout, receiver set, router callback, receiver already blocked in recv while the sender dies}); distinct_nontrivial = distinct (case, observation log) outcomes that passed"));
    rep.set("exhaustive", json!(true));
    rep.sample(serde_json::to_value(&cs[cs.len() / 2]).unwrap());
    rep.sample(serde_json::to_value(&cs[cs.len() - 1]).unwrap());
    rep.assume("the crashing sender is killed with SIGKILL between system calls (the kernel then closes its descriptors); crashes inside a system call are atomic at that level");
    rep.assume("the other process is idle while the receiver observes (sequential orchestration), so a blocking call is issued only where the ideal channel has a result due");
    rep.finish()
}

pub fn replay(v: &Value) -> i32 {
    let Ok(c) = serde_json::from_value::<Case>(v.clone()) else { return 2 };
    for r in 0..2 {
        let out = crate::exec::run_one(&cfg_of(&c), 60.0, &|| body(&c));
        println!("replay round {}: {:?} -> {:?}", r, c, super::describe(&out));
    }
    0
}
