//! C01 — values and byte payloads arrive exactly as sent, at every size.
//! Engine E2: bounded-exhaustive enumeration of lengths x buffer configurations x a value
//! grammar, on the os / memfd / inproc builds. Multi-packet cases that can fill the kernel
//! buffer run under the E1 scheduler (default schedule) with a receiver task, so a blocked
//! send is an exact deadlock report instead of a time-out.
use super::{emit_part, run_variant_part, sweep, sweep_batched, Part};
use crate::common::{first_diff, pattern, Report, Tier};
use crate::exec::obs;
use crate::interpose::Cfg;
use ipc_channel::ipc::{self, TryRecvError};
use ipc_channel::platform::OsIpcSender;
use serde::{Deserialize, Serialize};
use serde_json::{json, Value};
use std::collections::BTreeMap;

#[derive(Clone, Debug, Serialize, Deserialize, PartialEq)]
pub enum BufCfg {
    Default,
    Fake(usize),
    Real(usize),
}

impl BufCfg {
    fn cfg(&self, sched: bool) -> Cfg {
        let mut c = Cfg { sched, ..Default::default() };
        match self {
            BufCfg::Default => {},
            BufCfg::Fake(s) => c.fake_sndbuf = Some(*s),
            BufCfg::Real(s) => c.real_sndbuf = Some(*s),
        }
        c
    }
    /// (data capacity of a single/first packet, data capacity of a follow-up packet) as the
    /// library under test actually uses them in this configuration: measured, not assumed, by
    /// sending one large message in a probe child and reading the packet sizes off the
    /// system-call trace.
    pub fn sizes(&self) -> Result<(usize, usize), String> {
        if cfg!(feature = "inproc") {
            return Ok((4568, 4576));
        }
        let mut cfg = self.cfg(true);
        cfg.trace = true;
        let out = crate::exec::run_one(&cfg, 60.0, &|| {
            let m = OsIpcSender::get_max_fragment_size();
            obs(format!("{}", m));
            let (tx, rx) = ipc::bytes_channel().map_err(|e| e.to_string())?;
            let len = m * 3 + 4096;
            let h = std::thread::spawn(move || rx.recv().map(|v| v.len()));
            tx.send(&pattern(len, 3)).map_err(|e| format!("probe send: {}", e))?;
            let _ = h.join();
            Ok(())
        });
        let r = out.result.as_ref().ok_or_else(|| format!("size probe died: {:?}", out.exit))?;
        let m: usize = r.obs.first().and_then(|s| s.parse().ok()).ok_or("size probe: no capacity reported")?;
        let f1 = r
            .trace
            .iter()
            .find(|t| t.call == "sendmsg" && t.res > 0)
            .map(|t| (t.res as usize).saturating_sub(8))
            .unwrap_or(m);
        let f = r.trace.iter().find(|t| t.call == "send" && t.res > 0).map(|t| t.res as usize).unwrap_or(m + 8);
        let _ = f1;
        Ok((m, f))
    }
}

#[derive(Clone, Debug, Serialize, Deserialize)]
pub enum Case {
    /// bytes channel under transient ENOBUFS on the given transmission attempts: the transport may
    /// split the payload differently, the bytes must still arrive as sent (an error is acceptable)
    BytesEnobufs { buf: BufCfg, len: usize, mask: u64 },
    /// typed channel: a send whose serialisation fails on this thread, then value number `idx`
    TypedAfterFailedSend { buf: BufCfg, idx: usize },
    /// bytes channel, one message of `len` bytes, same-thread send then recv
    Bytes { buf: BufCfg, len: usize },
    /// bytes channel, receiver task under the scheduler (blocking sends possible)
    BytesThreaded { buf: BufCfg, len: usize },
    /// typed channel carrying grammar value number `idx` padded with `pad` bytes
    Typed { buf: BufCfg, idx: usize, pad: Option<usize> },
}

// ---------------------------------------------------------------------------
// value grammar

#[derive(Clone, Debug, Serialize, Deserialize, PartialEq)]
pub enum Color {
    Red,
    Rgb(u8, u8, u8),
    Named { name: String, alpha: f32 },
}

#[derive(Clone, Debug, Serialize, Deserialize, PartialEq)]
pub struct Rec {
    pub a: Box<V>,
    pub b: u32,
    pub c: Option<String>,
}

#[derive(Clone, Debug, Serialize, Deserialize, PartialEq)]
pub enum V {
    Unit,
    Bool(bool),
    U8(u8),
    I64(i64),
    U128(u128),
    F64(f64),
    F32(f32),
    Char(char),
    Str(String),
    Bytes(Vec<u8>),
    Opt(Option<Box<V>>),
    Tup(Box<V>, Box<V>),
    Rec(Rec),
    Seq(Vec<V>),
    Map(BTreeMap<String, V>),
    Enum(Color),
    Padded(Box<V>, Vec<u8>),
}

fn leaves() -> Vec<V> {
    vec![
        V::Unit,
        V::Bool(true),
        V::Bool(false),
        V::U8(0),
        V::U8(255),
        V::I64(i64::MIN),
        V::I64(i64::MAX),
        V::I64(-1),
        V::U128(u128::MAX - 5),
        V::F64(0.0),
        V::F64(-0.0),
        V::F64(f64::NAN),
        V::F64(f64::from_bits(0x7ff8_0000_dead_beef)),
        V::F64(f64::INFINITY),
        V::F64(f64::from_bits(1)),
        V::F64(1.5),
        V::F32(f32::from_bits(0xffc0_0001)),
        V::Char('\u{10ffff}'),
        V::Str(String::new()),
        V::Str("a".into()),
        V::Str("héllo wörld \u{1F600}".into()),
        V::Bytes(vec![]),
        V::Bytes(vec![0, 255, 1, 254]),
        V::Enum(Color::Red),
        V::Enum(Color::Rgb(1, 2, 3)),
        V::Enum(Color::Named { name: "x".into(), alpha: -0.0 }),
    ]
}

pub fn grammar() -> Vec<V> {
    let l = leaves();
    let mut out = l.clone();
    out.push(V::Opt(None));
    for a in &l {
        out.push(V::Opt(Some(Box::new(a.clone()))));
        out.push(V::Rec(Rec { a: Box::new(a.clone()), b: 0xdead_beef, c: Some("c".into()) }));
        out.push(V::Seq(vec![a.clone(), a.clone(), V::Unit]));
        let mut m = BTreeMap::new();
        m.insert("k".to_string(), a.clone());
        m.insert(String::new(), V::Opt(None));
        out.push(V::Map(m));
    }
    for a in &l {
        for b in &l {
            out.push(V::Tup(Box::new(a.clone()), Box::new(b.clone())));
        }
    }
    out.push(V::Seq(vec![]));
    out.push(V::Map(BTreeMap::new()));
    out
}

fn padded(v: &V, pad: Option<usize>) -> V {
    match pad {
        None => v.clone(),
        Some(n) => V::Padded(Box::new(v.clone()), pattern(n, 77)),
    }
}

// ---------------------------------------------------------------------------
// bodies (run in the child)

fn bytes_same_thread(len: usize) -> Result<(), String> {
    let (tx, rx) = ipc::bytes_channel().map_err(|e| format!("channel: {}", e))?;
    let data = pattern(len, 1);
    tx.send(&data).map_err(|e| format!("send of {} bytes failed: {}", len, e))?;
    let got = rx.recv().map_err(|e| format!("recv after send of {} bytes failed: {:?}", len, e))?;
    if got.len() != len {
        return Err(format!("sent {} bytes, received {}", len, got.len()));
    }
    if let Some(p) = first_diff(&got, &data) {
        return Err(format!("payload of {} bytes differs at offset {}", len, p));
    }
    match rx.try_recv() {
        Err(TryRecvError::Empty) => Ok(()),
        Ok(v) => Err(format!("a second message of {} bytes appeared after one send of {}", v.len(), len)),
        Err(e) => Err(format!("try_recv after the message: {:?} (expected Empty)", e)),
    }
}

fn bytes_threaded(len: usize) -> Result<(), String> {
    let (tx, rx) = ipc::bytes_channel().map_err(|e| format!("channel: {}", e))?;
    let h = std::thread::spawn(move || -> Result<(), String> {
        let got = rx.recv().map_err(|e| format!("recv failed: {:?}", e))?;
        let data = pattern(len, 1);
        if got.len() != len {
            return Err(format!("sent {} bytes, received {}", len, got.len()));
        }
        if let Some(p) = first_diff(&got, &data) {
            return Err(format!("payload of {} bytes differs at offset {}", len, p));
        }
        match rx.try_recv() {
            Err(TryRecvError::Empty) => Ok(()),
            Ok(v) => Err(format!("a second message of {} bytes appeared", v.len())),
            Err(e) => Err(format!("try_recv after the message: {:?} (expected Empty)", e)),
        }
    });
    let data = pattern(len, 1);
    tx.send(&data).map_err(|e| format!("send of {} bytes failed: {}", len, e))?;
    let r = h.join().map_err(|_| "receiver thread panicked".to_string())?;
    drop(tx);
    r
}

fn typed(idx: usize, pad: Option<usize>) -> Result<(), String> {
    let g = grammar();
    let v = padded(&g[idx], pad);
    let (tx, rx) = ipc::channel::<V>().map_err(|e| format!("channel: {}", e))?;
    let sent_bytes = bincode::serialize(&v).unwrap();
    tx.send(v.clone()).map_err(|e| format!("send of value #{} ({} bytes) failed: {}", idx, sent_bytes.len(), e))?;
    let got = rx.recv().map_err(|e| format!("recv of value #{} failed: {:?}", idx, e))?;
    let got_bytes = bincode::serialize(&got).unwrap();
    if got_bytes != sent_bytes {
        return Err(format!(
            "value #{} came back different (serialised {} vs {} bytes, first difference at {:?})",
            idx,
            sent_bytes.len(),
            got_bytes.len(),
            first_diff(&got_bytes, &sent_bytes)
        ));
    }
    match rx.try_recv() {
        Err(TryRecvError::Empty) => Ok(()),
        Ok(_) => Err("a second value appeared after one send".into()),
        Err(e) => Err(format!("try_recv after the value: {:?} (expected Empty)", e)),
    }
}

struct FailsToSerialize;
impl Serialize for FailsToSerialize {
    fn serialize<S: serde::Serializer>(&self, _s: S) -> Result<S::Ok, S::Error> {
        Err(serde::ser::Error::custom("refuses to serialise"))
    }
}
impl<'de> Deserialize<'de> for FailsToSerialize {
    fn deserialize<D: serde::Deserializer<'de>>(_d: D) -> Result<Self, D::Error> {
        Ok(FailsToSerialize)
    }
}

fn bytes_enobufs(len: usize, mask: u64) -> Result<(), String> {
    let (tx, rx) = ipc::bytes_channel().map_err(|e| format!("channel: {}", e))?;
    let data = pattern(len, 1);
    let h = std::thread::spawn(move || rx.recv());
    crate::interpose::set_enobufs_mask(mask);
    crate::interpose::arm();
    let r = tx.send(&data);
    crate::interpose::disarm();
    drop(tx);
    let got = h.join().map_err(|_| "receiver panicked".to_string())?;
    match r {
        Err(_) => Ok(()), // refusing under buffer exhaustion is acceptable
        Ok(()) => {
            let got = got.map_err(|e| format!("send of {} bytes under ENOBUFS returned Ok but recv failed: {:?}", len, e))?;
            if got.len() != len {
                return Err(format!("sent {} bytes (re-fragmented after ENOBUFS), received {}", len, got.len()));
            }
            if let Some(p) = first_diff(&got, &data) {
                return Err(format!("payload of {} bytes (re-fragmented after ENOBUFS) differs at offset {}", len, p));
            }
            Ok(())
        },
    }
}

fn typed_after_failed_send(idx: usize) -> Result<(), String> {
    let (ftx, _frx) = ipc::channel::<(Vec<u8>, FailsToSerialize)>().map_err(|e| e.to_string())?;
    if ftx.send((pattern(300, 9), FailsToSerialize)).is_ok() {
        return Err("a value whose serialisation fails was accepted".into());
    }
    typed(idx, None)
}

pub fn run_case(c: &Case) -> Result<(), String> {
    match c {
        Case::BytesEnobufs { len, mask, .. } => bytes_enobufs(*len, *mask),
        Case::TypedAfterFailedSend { idx, .. } => typed_after_failed_send(*idx),
        Case::Bytes { len, .. } => {
            bytes_same_thread(*len)
        },
        Case::BytesThreaded { len, .. } => {
            obs(format!("len={}", len));
            bytes_threaded(*len)
        },
        Case::Typed { idx, pad, .. } => {
            typed(*idx, *pad)
        },
    }
}

pub fn cfg_of(c: &Case) -> Cfg {
    match c {
        Case::BytesEnobufs { buf, .. } => buf.cfg(true),
        Case::TypedAfterFailedSend { buf, .. } => buf.cfg(false),
        Case::Bytes { buf, .. } => buf.cfg(false),
        Case::BytesThreaded { buf, .. } => buf.cfg(true),
        Case::Typed { buf, .. } => buf.cfg(false),
    }
}

// ---------------------------------------------------------------------------
// enumeration

pub fn windows(sizes: (usize, usize), kmax: usize) -> Vec<usize> {
    let (f1, f) = sizes;
    let mut v: Vec<usize> = vec![0, 1, 7, 8, 9];
    for k in 1..=kmax {
        let b = f1 + (k - 1) * f;
        for d in -16i64..=16 {
            let l = b as i64 + d;
            if l >= 0 {
                v.push(l as usize);
            }
        }
    }
    v.sort();
    v.dedup();
    v
}

fn part(tier: Tier) -> Part {
    let mut p = Part::new();
    let inproc = cfg!(feature = "inproc");
    let quick = tier.is_quick();
    // (a) dense sweep, S_fake = 4608 (in-process: no packets; the sweep is kept as is)
    let dense_buf = if inproc { BufCfg::Default } else { BufCfg::Fake(4608) };
    let mut machinery: Vec<String> = Vec::new();
    let (f1, f) = match BufCfg::Fake(4608).sizes() {
        Ok(x) => x,
        Err(e) => {
            // the probe is one ordinary 4-packet message on a healthy channel: a process that
            // dies sending or receiving it is a finding, not an engine problem
            if e.contains("died") {
                p.fail(format!("sending/receiving one 4-packet message killed the process ({})", e), json!({"probe": "sizes", "buf": "Fake(4608)"}));
            } else {
                p.machinery.push(e);
            }
            return p;
        },
    };
    let top = f1 + 3 * f + 16;
    let dense: Vec<Case> = (0..=top).map(|len| Case::Bytes { buf: dense_buf.clone(), len }).collect();
    let mut fails: Vec<(Case, String)> = Vec::new();
    let mut n_dense = 0u64;
    sweep_batched(&dense, 128, 120.0, &dense_buf.cfg(false), &run_case, &mut |_, c, r| {
        n_dense += 1;
        if let Err(e) = r {
            fails.push((c.clone(), e));
        }
    });
    if !quick && !inproc {
        // two more dense sweeps at other packet sizes
        for b in [BufCfg::Fake(6144), BufCfg::Fake(8192)] {
            match b.sizes() {
                Ok((g1, g)) => {
                    let top2 = g1 + 3 * g + 16;
                    let more: Vec<Case> = (0..=top2).map(|len| Case::Bytes { buf: b.clone(), len }).collect();
                    sweep_batched(&more, 128, 120.0, &b.cfg(false), &run_case, &mut |_, c, r| {
                        n_dense += 1;
                        if let Err(e) = r {
                            fails.push((c.clone(), e));
                        }
                    });
                    p.notes.push(format!("dense sweep also at {:?}: 0..={}", b, top2));
                },
                Err(e) if e.contains("died") => p.fail(format!("sending/receiving one 4-packet message killed the process ({}) with {:?}", e, b), json!({"probe": "sizes", "buf": b})),
                Err(e) => machinery.push(e),
            }
        }
    }
    p.count("dense_lengths", n_dense);
    p.sample(json!({"kind": "dense bytes sweep", "buf": dense_buf, "lengths": format!("0..={}", top)}));

    // (b) boundary windows for every buffer configuration, receiver task under the scheduler
    let mut threaded: Vec<Case> = Vec::new();
    if !inproc {
        let kmax = if quick { 4 } else { 8 };
        let mut bufs = vec![
            BufCfg::Fake(4608),
            BufCfg::Fake(8192),
            BufCfg::Fake(65536),
            BufCfg::Real(4608),
            BufCfg::Real(8192),
            BufCfg::Real(16384),
            BufCfg::Default,
        ];
        if !quick {
            bufs.push(BufCfg::Fake(4096 + 512));
            bufs.push(BufCfg::Fake(12288));
            bufs.push(BufCfg::Real(32768));
            bufs.push(BufCfg::Real(65536));
        }
        for b in &bufs {
            let sz = match b.sizes() {
                Ok(x) => x,
                Err(e) => {
                    if e.contains("died") {
                        p.fail(format!("sending/receiving one 4-packet message killed the process ({}) with {:?}", e, b), json!({"probe": "sizes", "buf": b}));
                    } else {
                        machinery.push(e);
                    }
                    continue;
                },
            };
            p.notes.push(format!("{:?}: single-packet capacity {}, follow-up capacity {}", b, sz.0, sz.1));
            for len in windows(sz, kmax) {
                threaded.push(Case::BytesThreaded { buf: b.clone(), len });
            }
        }
        // the same payload must arrive however ENOBUFS makes the transport split it
        for b in [BufCfg::Fake(4608), BufCfg::Default] {
            if let Ok((f1, _)) = b.sizes() {
                for len in [2001usize, f1 / 2 + 1000, f1 - 1, f1, f1 + 1, 2 * f1 + 5] {
                    for mask in [1u64, 2, 3, 5, 6] {
                        threaded.push(Case::BytesEnobufs { buf: b.clone(), len, mask });
                    }
                }
            }
        }
        if !quick {
            // (c) powers of two up to 64 MiB and 64 MiB +- 1
            let mut l = 1usize << 12;
            while l <= 64 << 20 {
                threaded.push(Case::BytesThreaded { buf: BufCfg::Default, len: l });
                threaded.push(Case::BytesThreaded { buf: BufCfg::Default, len: l + 1 });
                threaded.push(Case::BytesThreaded { buf: BufCfg::Default, len: l - 1 });
                l <<= 1;
            }
            threaded.push(Case::BytesThreaded { buf: BufCfg::Fake(65536), len: 8 << 20 });
        }
    } else {
        for len in [0usize, 1, 4567, 4568, 4569, 212951, 212952, 212953, 1 << 20] {
            threaded.push(Case::BytesThreaded { buf: BufCfg::Default, len });
        }
        if !quick {
            threaded.push(Case::BytesThreaded { buf: BufCfg::Default, len: 64 << 20 });
        }
    }
    let mut n_thr = 0u64;
    sweep(&threaded, 300.0, &cfg_of, &run_case, &mut |_, c, out| {
        n_thr += 1;
        match super::describe(out) {
            Ok(_) => {},
            Err(e) if e.starts_with("MACHINERY") => machinery.push(format!("{:?}: {}", c, e)),
            Err(e) => fails.push((c.clone(), e)),
        }
    });
    p.count("boundary_window_cases", n_thr);
    if let Some(c) = threaded.get(threaded.len() / 2) {
        p.sample(serde_json::to_value(c).unwrap());
    }

    // (d) typed values: the grammar, plain and padded to the k = 1, 2 boundaries
    let g = grammar();
    let tbuf = if inproc { BufCfg::Default } else { BufCfg::Fake(4608) };
    let mut typed_cases: Vec<Case> = Vec::new();
    for idx in 0..g.len() {
        typed_cases.push(Case::Typed { buf: tbuf.clone(), idx, pad: None });
    }
    for idx in (0..g.len()).step_by(if quick { 5 } else { 1 }) {
        typed_cases.push(Case::TypedAfterFailedSend { buf: tbuf.clone(), idx });
    }
    let stride = if quick { 7 } else { 1 };
    for idx in (0..g.len()).step_by(stride) {
        let base = bincode::serialize(&padded(&g[idx], Some(0))).unwrap().len();
        for k in 1..=2usize {
            let b = f1 + (k - 1) * f;
            for d in [-1i64, 0, 1] {
                let want = b as i64 + d - base as i64;
                if want >= 0 {
                    typed_cases.push(Case::Typed { buf: tbuf.clone(), idx, pad: Some(want as usize) });
                }
            }
        }
    }
    let mut n_typed = 0u64;
    sweep_batched(&typed_cases, 64, 120.0, &tbuf.cfg(false), &run_case, &mut |_, c, r| {
        n_typed += 1;
        if let Err(e) = r {
            if e.starts_with("MACHINERY") {
                machinery.push(e);
            } else {
                fails.push((c.clone(), e));
            }
        }
    });
    p.count("typed_values", n_typed);
    p.sample(json!({"kind": "typed", "value": format!("{:?}", g[g.len() / 3]), "pad": Value::Null}));

    p.evaluations = n_dense + n_thr + n_typed;
    // distinct & non-trivial: every case is a distinct (configuration, length | value, padding);
    // non-trivial = not the empty payload
    let nontrivial = |c: &Case| match c {
        Case::Bytes { len, .. } | Case::BytesThreaded { len, .. } => *len > 0,
        _ => true,
    };
    p.distinct = (dense.iter().filter(|c| nontrivial(c)).count() + threaded.iter().filter(|c| nontrivial(c)).count() + typed_cases.iter().filter(|c| nontrivial(c)).count()) as u64;
    for (c, e) in fails {
        p.fail(format!("{} :: {:?}", e, c), serde_json::to_value(&c).unwrap());
    }
    p.machinery = machinery;
    p
}

pub fn run(tier: Tier, part_only: bool) -> i32 {
    let t0 = std::time::Instant::now();
    // cheap check: both tiers run the thorough case list (a few seconds on three builds)
    let own = part(Tier::Thorough);
    if part_only {
        return emit_part(&own);
    }
    let mut rep = Report::new("C01", tier, "exploration");
    rep.set("tiers", json!("the quick tier runs the thorough tier's cases as well"));
    rep.t0 = t0;
    own.merge_into(&mut rep);
    for v in ["memfd", "inproc"] {
        match run_variant_part(v, "C01", tier) {
            Ok(p) => p.merge_into(&mut rep),
            Err(e) => rep.machinery(e),
        }
    }
    rep.set(
        "rule",
        json!("cases = (build variant, buffer configuration, byte length | grammar value + padding); dense lengths 0..=F1+3F+16 at S=4608, +-16 windows around k*capacity for every buffer configuration (k<=4 quick, <=8 thorough) with a receiver task under the E1 scheduler, the serde value grammar plain and padded to packet boundaries; each case is distinct by construction; non-trivial = payload not empty"),
    );
    rep.set("exhaustive", json!(true));
    rep.assume("send is expected to succeed for every length on a healthy channel (a capacity miscalculation surfaces as EMSGSIZE under a real small SO_SNDBUF)");
    rep.assume("lengths between the sampled windows above 4 (8) packets at buffer sizes other than 4608 are not visited");
    rep.assume("link-time interposition forwards system calls faithfully (x86-64 glibc)");
    rep.finish()
}

pub fn replay(v: &Value) -> i32 {
    let Ok(c) = serde_json::from_value::<Case>(v["case"].clone()) else {
        eprintln!("bad replay case");
        return 2;
    };
    let var = v["variant"].as_str().unwrap_or("os");
    if var != super::variant() {
        if let Ok(bin) = std::env::var(format!("VCHECK_BIN_{}", var.to_uppercase())) {
            eprintln!("(case belongs to variant {}; run {} replay <file>)", var, bin);
        }
    }
    for round in 0..2 {
        let out = crate::exec::run_one(&cfg_of(&c), 300.0, &|| run_case(&c));
        println!("replay round {}: {:?} -> {:?}", round, c, super::describe(&out));
    }
    0
}
