//! One execution = one forked child. Child side: activate the interposer, run the
//! body, report. Parent side: a small process pool that collects results.
#![allow(dead_code, static_mut_refs)]

use crate::interpose::{self, Cfg, Snapshot, TraceEntry};
use crate::raw;
use crate::sched::{self, Point};
use serde::{Deserialize, Serialize};
use std::sync::atomic::{AtomicBool, AtomicI32, AtomicU32, Ordering};

#[derive(Clone, Debug, PartialEq, Eq, Serialize, Deserialize)]
pub enum Status {
    Ok,
    /// the body's oracle rejected what it saw
    Violation(String),
    /// no task enabled while the body had not finished
    Deadlock(String),
    /// the body (task 0) panicked
    Panic(String),
    /// harness/engine problem: never a verdict
    Machinery(String),
}

#[derive(Clone, Debug, Serialize, Deserialize)]
pub struct ExecResult {
    pub status: Status,
    pub obs: Vec<String>,
    pub points: Vec<Point>,
    pub fps: Vec<u64>,
    pub trace: Vec<TraceEntry>,
    /// panics seen on any thread (message), in order
    pub panics: Vec<String>,
    pub mismatches: u32,
    pub timers: u32,
    pub switches: u32,
    pub snapshot: Snapshot,
}

#[derive(Clone, Debug)]
pub enum Exit {
    Exited(i32),
    Signaled(i32),
    TimedOut,
}

#[derive(Clone, Debug)]
pub struct Outcome {
    pub result: Option<ExecResult>,
    pub exit: Exit,
    pub wall_ms: f64,
}

impl Outcome {
    pub fn status(&self) -> Status {
        match (&self.result, &self.exit) {
            (Some(r), _) => r.status.clone(),
            (None, Exit::TimedOut) => Status::Machinery("execution timed out (watchdog)".into()),
            (None, Exit::Signaled(s)) => Status::Panic(format!("killed by signal {}", s)),
            (None, Exit::Exited(c)) => Status::Panic(format!("exited with status {} without reporting", c)),
        }
    }
}

// ---------------------------------------------------------------------------
// child side

static RESULT_FD: AtomicI32 = AtomicI32::new(-1);
static FINISHING: AtomicBool = AtomicBool::new(false);

struct Spin(AtomicU32);
impl Spin {
    fn lock(&self) {
        while self.0.compare_exchange_weak(0, 1, Ordering::Acquire, Ordering::Relaxed).is_err() {
            std::hint::spin_loop();
        }
    }
    fn unlock(&self) {
        self.0.store(0, Ordering::Release);
    }
}
static LOGLOCK: Spin = Spin(AtomicU32::new(0));
static mut OBS: Vec<String> = Vec::new();
static mut PANICS: Vec<String> = Vec::new();

/// append to the observation log of this execution
pub fn obs(s: impl Into<String>) {
    let s = s.into();
    LOGLOCK.lock();
    unsafe { OBS.push(s) };
    LOGLOCK.unlock();
}

pub fn panics_so_far() -> Vec<String> {
    LOGLOCK.lock();
    let v = unsafe { PANICS.clone() };
    LOGLOCK.unlock();
    v
}

fn install_panic_hook() {
    std::panic::set_hook(Box::new(|info| {
        let msg = if let Some(s) = info.payload().downcast_ref::<&str>() {
            s.to_string()
        } else if let Some(s) = info.payload().downcast_ref::<String>() {
            s.clone()
        } else {
            "<non-string panic>".to_string()
        };
        let loc = info.location().map(|l| format!("{}:{}", l.file(), l.line())).unwrap_or_default();
        let th = std::thread::current().name().unwrap_or("?").to_string();
        LOGLOCK.lock();
        unsafe { PANICS.push(format!("[{} task{}] {} @ {}", th, interpose::cur_task(), msg, loc)) };
        LOGLOCK.unlock();
    }));
}

/// Run `body` as an execution in this (child) process and never return.
pub fn run_child(cfg: &Cfg, result_fd: i32, body: &dyn Fn() -> Result<(), String>) -> ! {
    RESULT_FD.store(result_fd, Ordering::SeqCst);
    install_panic_hook();
    interpose::activate(cfg);
    let r = std::panic::catch_unwind(std::panic::AssertUnwindSafe(body));
    let status = match r {
        Ok(Ok(())) => Status::Ok,
        Ok(Err(v)) => Status::Violation(v),
        Err(p) => {
            let msg = if let Some(s) = p.downcast_ref::<&str>() {
                s.to_string()
            } else if let Some(s) = p.downcast_ref::<String>() {
                s.clone()
            } else {
                "<panic>".into()
            };
            Status::Panic(msg)
        },
    };
    finish(status)
}

/// Report and exit. May be called from any thread (the scheduler calls it on deadlock).
pub fn finish(status: Status) -> ! {
    if FINISHING.swap(true, Ordering::SeqCst) {
        loop {
            unsafe { raw::sc3(libc::SYS_pause, 0, 0, 0) };
        }
    }
    sched::main_done();
    let (points, fps, mismatches, timers, switches) = sched::report().unwrap_or_default();
    let snapshot = interpose::snapshot();
    let trace = interpose::take_trace();
    interpose::deactivate();
    LOGLOCK.lock();
    let obs = unsafe { std::mem::take(&mut OBS) };
    let panics = unsafe { std::mem::take(&mut PANICS) };
    LOGLOCK.unlock();
    let res = ExecResult { status, obs, points, fps, trace, panics, mismatches, timers, switches, snapshot };
    let bytes = bincode::serialize(&res).unwrap_or_default();
    let fd = RESULT_FD.load(Ordering::SeqCst);
    unsafe {
        raw::write_all(fd, &(bytes.len() as u64).to_le_bytes());
        raw::write_all(fd, &bytes);
        raw::exit_group(0)
    }
}

// ---------------------------------------------------------------------------
// parent side

pub struct Running<T> {
    pub tag: T,
    pid: i32,
    fd: i32,
    buf: Vec<u8>,
    start: std::time::Instant,
    deadline: std::time::Instant,
    eof: bool,
}

pub struct Pool<T> {
    pub workers: usize,
    running: Vec<Running<T>>,
    pub timeout_s: f64,
    pub spawned: u64,
}

impl<T> Pool<T> {
    pub fn new(workers: usize, timeout_s: f64) -> Pool<T> {
        Pool { workers, running: Vec::new(), timeout_s, spawned: 0 }
    }

    pub fn has_capacity(&self) -> bool {
        self.running.len() < self.workers
    }

    pub fn in_flight(&self) -> usize {
        self.running.len()
    }

    /// fork a child that runs `body` under `cfg`
    pub fn submit(&mut self, tag: T, cfg: &Cfg, body: &dyn Fn() -> Result<(), String>) {
        unsafe {
            let mut p = [0i32; 2];
            if libc::pipe2(p.as_mut_ptr(), libc::O_CLOEXEC) != 0 {
                panic!("pipe2 failed");
            }
            let pid = libc::fork();
            if pid < 0 {
                panic!("fork failed: {}", std::io::Error::last_os_error());
            }
            if pid == 0 {
                raw::close(p[0]);
                // close the read ends of the other children's pipes: keep the descriptor table of
                // every execution identical whatever else is in flight
                for r in &self.running {
                    raw::close(r.fd);
                }
                // move the result pipe out of the way so the library's descriptors start low and
                // deterministic
                let hi = raw::fcntl(p[1], libc::F_DUPFD_CLOEXEC, 390) as i32;
                if hi >= 0 {
                    raw::close(p[1]);
                    run_child(cfg, hi, body);
                }
                run_child(cfg, p[1], body);
            }
            raw::close(p[1]);
            let now = std::time::Instant::now();
            self.spawned += 1;
            self.running.push(Running {
                tag,
                pid,
                fd: p[0],
                buf: Vec::new(),
                start: now,
                deadline: now + std::time::Duration::from_secs_f64(self.timeout_s),
                eof: false,
            });
        }
    }

    /// wait until at least one child is done; returns its tag and outcome
    pub fn wait_any(&mut self) -> Option<(T, Outcome)> {
        if self.running.is_empty() {
            return None;
        }
        loop {
            // anything already complete?
            if let Some(i) = self.running.iter().position(|r| r.eof) {
                let r = self.running.swap_remove(i);
                return Some(Self::reap(r, false));
            }
            let now = std::time::Instant::now();
            if let Some(i) = self.running.iter().position(|r| now >= r.deadline) {
                let r = self.running.swap_remove(i);
                unsafe { libc::kill(r.pid, libc::SIGKILL) };
                return Some(Self::reap(r, true));
            }
            let mut pfds: Vec<libc::pollfd> =
                self.running.iter().map(|r| libc::pollfd { fd: r.fd, events: libc::POLLIN, revents: 0 }).collect();
            let next_deadline = self.running.iter().map(|r| r.deadline).min().unwrap();
            let ms = (next_deadline.saturating_duration_since(now).as_millis() as i32).clamp(1, 1000);
            let n = unsafe { libc::poll(pfds.as_mut_ptr(), pfds.len() as _, ms) };
            if n <= 0 {
                continue;
            }
            for (i, p) in pfds.iter().enumerate() {
                if p.revents != 0 {
                    let r = &mut self.running[i];
                    let mut tmp = [0u8; 65536];
                    loop {
                        let k = unsafe { libc::read(r.fd, tmp.as_mut_ptr() as *mut _, tmp.len()) };
                        if k > 0 {
                            r.buf.extend_from_slice(&tmp[..k as usize]);
                            if (k as usize) < tmp.len() {
                                break;
                            }
                        } else if k == 0 {
                            r.eof = true;
                            break;
                        } else {
                            let e = std::io::Error::last_os_error().raw_os_error().unwrap_or(0);
                            if e == libc::EINTR {
                                continue;
                            }
                            r.eof = true;
                            break;
                        }
                    }
                }
            }
        }
    }

    fn reap(r: Running<T>, timed_out: bool) -> (T, Outcome) {
        let mut st = 0i32;
        unsafe {
            loop {
                let w = libc::waitpid(r.pid, &mut st, 0);
                if w == r.pid || (w < 0 && std::io::Error::last_os_error().raw_os_error() != Some(libc::EINTR)) {
                    break;
                }
            }
            libc::close(r.fd);
        }
        let exit = if timed_out {
            Exit::TimedOut
        } else if libc::WIFSIGNALED(st) {
            Exit::Signaled(libc::WTERMSIG(st))
        } else {
            Exit::Exited(libc::WEXITSTATUS(st))
        };
        let result = if r.buf.len() >= 8 {
            let n = u64::from_le_bytes(r.buf[..8].try_into().unwrap()) as usize;
            if r.buf.len() >= 8 + n {
                bincode::deserialize::<ExecResult>(&r.buf[8..8 + n]).ok()
            } else {
                None
            }
        } else {
            None
        };
        (r.tag, Outcome { result, exit, wall_ms: r.start.elapsed().as_secs_f64() * 1e3 })
    }
}

/// convenience: run one execution synchronously
pub fn run_one(cfg: &Cfg, timeout_s: f64, body: &dyn Fn() -> Result<(), String>) -> Outcome {
    let mut p: Pool<()> = Pool::new(1, timeout_s);
    p.submit((), cfg, body);
    p.wait_any().unwrap().1
}

pub fn default_workers() -> usize {
    let n = std::thread::available_parallelism().map(|n| n.get()).unwrap_or(4);
    std::env::var("VERIF_WORKERS").ok().and_then(|s| s.parse().ok()).unwrap_or(n.saturating_sub(2).max(2))
}
