//! The reference model ("ideal world"): unbounded FIFO channels with counted sender
//! handles, handles and receivers in transit inside undelivered messages, plain Rust, no I/O.
//! It is the oracle of C03/C19 and the explored state graph of their BFS; `Exec` replays a
//! path of model operations on the real API and compares every observable result.
#![allow(dead_code)]

use ipc_channel::ipc::{self, IpcError, IpcReceiver, IpcSender, TryRecvError};
use serde::{Deserialize, Serialize};
use std::collections::BTreeMap;

#[derive(Clone, Copy, Debug, PartialEq, Eq, Hash, PartialOrd, Ord, Serialize, Deserialize)]
pub enum Loc {
    Main,
    /// operations on it are carried out by another thread
    Thread,
    /// held by a forked child process
    Proc,
}

#[derive(Clone, Copy, Debug, PartialEq, Eq, Hash, PartialOrd, Ord, Serialize, Deserialize)]
pub enum HState {
    Held(Loc),
    InMsg(usize),
    Dropped,
}

#[derive(Clone, Debug, PartialEq, Eq, Hash, Serialize, Deserialize)]
pub struct Handle {
    pub chan: usize,
    pub st: HState,
}

#[derive(Clone, Copy, Debug, PartialEq, Eq, Hash, Serialize, Deserialize)]
pub enum RState {
    Held,
    InMsg(usize),
    Dropped,
    /// member of the (single) receiver set
    InSet,
}

#[derive(Clone, Debug, PartialEq, Eq, Hash, Serialize, Deserialize)]
pub enum Item {
    Data(u32),
    Tx(usize),
    Rx(usize),
    /// a shared-memory region whose contents are derived from the tag
    Region(u32),
}

#[derive(Clone, Debug, PartialEq, Eq, Hash, Serialize, Deserialize)]
pub struct Chan {
    pub queue: Vec<usize>,
    pub rx: RState,
    /// created through a one-shot server (kept apart in the canonical form so that what happens
    /// *after* such a creation is explored too, not only the creation itself)
    #[serde(default)]
    pub oneshot: bool,
}

#[derive(Clone, Debug, PartialEq, Eq, Hash, Serialize, Deserialize)]
pub struct World {
    pub chans: Vec<Chan>,
    pub handles: Vec<Handle>,
    pub msgs: Vec<Vec<Item>>,
    pub next_tag: u32,
    #[serde(default)]
    pub max_chans: usize,
}

#[derive(Clone, Copy, Debug, PartialEq, Eq, Hash, Serialize, Deserialize)]
pub enum How {
    Blocking,
    Try,
    Timed0,
}

#[derive(Clone, Debug, PartialEq, Eq, Hash, Serialize, Deserialize)]
pub enum Op {
    Clone(usize),
    DropH(usize),
    SendData(usize),
    /// send handle `what` (moved) through handle `via`
    EmbedTx { what: usize, via: usize },
    /// send the receiver of channel `chan` (moved) through handle `via`
    EmbedRx { chan: usize, via: usize },
    Recv { chan: usize, how: How },
    DropRx(usize),
    MoveThread(usize),
    MoveProc(usize),
    /// message with a data item and a shared-memory region
    SendRegion(usize),
    /// move the receiver of this channel into the receiver set
    SetAdd(usize),
    /// select repeatedly until the ideal set has no pending event
    SetDrain,
    /// drop the receiver set with all its members (and everything queued on them)
    SetDrop,
    /// a new channel from ipc::channel()
    NewChannel,
    /// a new channel through a one-shot server: new, connect, send a first message, accept
    OneShot,
    /// a one-shot server whose client connects and leaves without sending anything, then accept:
    /// no sender can exist any more, so accept reports that (an error) instead of a first message;
    /// no channel comes into being
    OneShotClientLeft,
}

#[derive(Clone, Debug, PartialEq, Eq, Serialize, Deserialize)]
pub enum Expect {
    Done,
    SendOk,
    SendErr,
    /// a message with these items (Tx/Rx carry model ids)
    Msg(Vec<Item>),
    Empty,
    Disconnected,
    /// per member channel: the messages reported for it, in order, and whether it was then
    /// reported closed (batching across select calls and order across members are normalised away)
    Events(BTreeMap<usize, (Vec<Vec<Item>>, bool)>),
}

impl World {
    pub fn new(nchan: usize) -> World {
        World {
            chans: (0..nchan).map(|_| Chan { queue: vec![], rx: RState::Held, oneshot: false }).collect(),
            handles: (0..nchan).map(|c| Handle { chan: c, st: HState::Held(Loc::Main) }).collect(),
            msgs: vec![],
            next_tag: 1,
            max_chans: nchan,
        }
    }

    /// is the message still queued somewhere whose receiver can still be reached?
    fn msg_alive(&self, m: usize) -> bool {
        match self.chans.iter().position(|c| c.queue.contains(&m)) {
            Some(c) => self.rx_alive(c),
            None => false,
        }
    }

    pub fn rx_alive(&self, c: usize) -> bool {
        match self.chans[c].rx {
            RState::Held | RState::InSet => true,
            RState::Dropped => false,
            RState::InMsg(m) => self.msg_alive(m),
        }
    }

    pub fn live_senders(&self, c: usize) -> usize {
        self.handles
            .iter()
            .filter(|h| h.chan == c)
            .filter(|h| match h.st {
                HState::Held(_) => true,
                HState::InMsg(m) => self.msg_alive(m),
                HState::Dropped => false,
            })
            .count()
    }

    /// what a non-blocking receive on `c` gives
    pub fn peek(&self, c: usize) -> Expect {
        if let Some(&m) = self.chans[c].queue.first() {
            Expect::Msg(self.msgs[m].clone())
        } else if self.live_senders(c) > 0 {
            Expect::Empty
        } else {
            Expect::Disconnected
        }
    }

    fn kill_msg(&mut self, m: usize) {
        for it in self.msgs[m].clone() {
            match it {
                Item::Tx(h) => self.handles[h].st = HState::Dropped,
                Item::Rx(c) => self.kill_rx(c),
                Item::Data(_) | Item::Region(_) => {},
            }
        }
    }

    fn kill_rx(&mut self, c: usize) {
        self.chans[c].rx = RState::Dropped;
        let q = std::mem::take(&mut self.chans[c].queue);
        for m in q {
            self.kill_msg(m);
        }
    }

    fn send(&mut self, via: usize, items: Vec<Item>) -> Expect {
        let c = self.handles[via].chan;
        let m = self.msgs.len();
        self.msgs.push(items.clone());
        if self.rx_alive(c) {
            for it in &items {
                match it {
                    Item::Tx(h) => self.handles[*h].st = HState::InMsg(m),
                    Item::Rx(r) => self.chans[*r].rx = RState::InMsg(m),
                    Item::Data(_) | Item::Region(_) => {},
                }
            }
            self.chans[c].queue.push(m);
            Expect::SendOk
        } else {
            // the value is consumed by the failed send: what it carried is dropped
            for it in &items {
                match it {
                    Item::Tx(h) => self.handles[*h].st = HState::Dropped,
                    Item::Rx(r) => self.kill_rx(*r),
                    Item::Data(_) | Item::Region(_) => {},
                }
            }
            Expect::SendErr
        }
    }

    pub fn applicable(&self, op: &Op, max_queue: usize, max_handles: usize) -> bool {
        let held = |h: usize| matches!(self.handles.get(h).map(|x| x.st), Some(HState::Held(_)));
        let held_main = |h: usize| matches!(self.handles.get(h).map(|x| x.st), Some(HState::Held(Loc::Main)));
        let room = |via: usize| self.chans[self.handles[via].chan].queue.len() < max_queue;
        match op {
            Op::Clone(h) => held_main(*h) && self.handles.iter().filter(|x| x.st != HState::Dropped).count() < max_handles,
            Op::DropH(h) => held(*h),
            Op::SendData(h) => held(*h) && room(*h) && self.handles[*h].st != HState::Held(Loc::Proc),
            Op::EmbedTx { what, via } => {
                // carriers are lower-numbered channels: the family stays acyclic
                what != via && held_main(*what) && held_main(*via) && self.handles[*via].chan < self.handles[*what].chan && room(*via)
            },
            Op::EmbedRx { chan, via } => {
                self.chans[*chan].rx == RState::Held && held_main(*via) && self.handles[*via].chan < *chan && room(*via)
            },
            Op::Recv { chan, how } => {
                self.chans[*chan].rx == RState::Held
                    && match how {
                        How::Blocking => self.peek(*chan) != Expect::Empty,
                        _ => true,
                    }
            },
            Op::DropRx(c) => self.chans[*c].rx == RState::Held,
            Op::MoveThread(h) => held_main(*h),
            Op::MoveProc(h) => held_main(*h),
            Op::SendRegion(h) => held_main(*h) && room(*h),
            Op::SetAdd(c) => self.chans[*c].rx == RState::Held,
            Op::SetDrain => self.pending_set_events() > 0,
            Op::SetDrop => !self.set_members().is_empty(),
            Op::NewChannel | Op::OneShot | Op::OneShotClientLeft => self.chans.len() < self.max_chans,
        }
    }

    pub fn set_members(&self) -> Vec<usize> {
        (0..self.chans.len()).filter(|c| self.chans[*c].rx == RState::InSet).collect()
    }

    pub fn pending_set_events(&self) -> usize {
        self.set_members().iter().map(|c| self.chans[*c].queue.len() + if self.live_senders(*c) == 0 { 1 } else { 0 }).sum()
    }

    fn deliver(&mut self, items: &[Item]) {
        for it in items {
            match it {
                Item::Tx(h) => self.handles[*h].st = HState::Held(Loc::Main),
                Item::Rx(c) => self.chans[*c].rx = RState::Held,
                Item::Data(_) | Item::Region(_) => {},
            }
        }
    }

    pub fn apply(&mut self, op: &Op) -> Expect {
        match op {
            Op::Clone(h) => {
                let c = self.handles[*h].chan;
                self.handles.push(Handle { chan: c, st: HState::Held(Loc::Main) });
                Expect::Done
            },
            Op::DropH(h) => {
                self.handles[*h].st = HState::Dropped;
                Expect::Done
            },
            Op::SendData(h) => {
                let t = self.next_tag;
                self.next_tag += 1;
                self.send(*h, vec![Item::Data(t)])
            },
            Op::EmbedTx { what, via } => {
                let t = self.next_tag;
                self.next_tag += 1;
                self.send(*via, vec![Item::Data(t), Item::Tx(*what)])
            },
            Op::EmbedRx { chan, via } => {
                let t = self.next_tag;
                self.next_tag += 1;
                self.send(*via, vec![Item::Rx(*chan), Item::Data(t)])
            },
            Op::Recv { chan, .. } => {
                let e = self.peek(*chan);
                if let Expect::Msg(items) = &e {
                    self.chans[*chan].queue.remove(0);
                    let items = items.clone();
                    self.deliver(&items);
                }
                e
            },
            Op::DropRx(c) => {
                self.kill_rx(*c);
                Expect::Done
            },
            Op::SetDrop => {
                for c in self.set_members() {
                    self.kill_rx(c);
                }
                Expect::Done
            },
            Op::MoveThread(h) => {
                self.handles[*h].st = HState::Held(Loc::Thread);
                Expect::Done
            },
            Op::MoveProc(h) => {
                self.handles[*h].st = HState::Held(Loc::Proc);
                Expect::Done
            },
            Op::SendRegion(h) => {
                let t = self.next_tag;
                self.next_tag += 1;
                self.send(*h, vec![Item::Region(t), Item::Data(t)])
            },
            Op::SetAdd(c) => {
                self.chans[*c].rx = RState::InSet;
                Expect::Done
            },
            Op::SetDrain => {
                let mut ev: BTreeMap<usize, (Vec<Vec<Item>>, bool)> = BTreeMap::new();
                // messages first (receiving hands endpoints to the program, which keeps them)
                for c in self.set_members() {
                    let q = std::mem::take(&mut self.chans[c].queue);
                    let mut msgs = Vec::new();
                    for m in q {
                        let items = self.msgs[m].clone();
                        self.deliver(&items);
                        msgs.push(items);
                    }
                    ev.insert(c, (msgs, false));
                }
                for c in self.set_members() {
                    if self.live_senders(c) == 0 {
                        ev.get_mut(&c).unwrap().1 = true;
                        self.chans[c].rx = RState::Dropped;
                    }
                }
                ev.retain(|_, v| !v.0.is_empty() || v.1);
                Expect::Events(ev)
            },
            Op::OneShotClientLeft => Expect::Disconnected,
            Op::NewChannel | Op::OneShot => {
                let c = self.chans.len();
                self.chans.push(Chan { queue: vec![], rx: RState::Held, oneshot: *op == Op::OneShot });
                self.handles.push(Handle { chan: c, st: HState::Held(Loc::Main) });
                Expect::Done
            },
        }
    }

    /// alphabet of C19: single-threaded programs (no moves), plus regions, the receiver set and
    /// channel creation (plain and through a one-shot server)
    pub fn ops19(&self, max_queue: usize, max_handles: usize) -> Vec<Op> {
        let mut v: Vec<Op> = self.ops(max_queue, max_handles, false).into_iter().filter(|o| !matches!(o, Op::MoveThread(_))).collect();
        for h in 0..self.handles.len() {
            v.push(Op::SendRegion(h));
        }
        for c in 0..self.chans.len() {
            v.push(Op::SetAdd(c));
        }
        v.push(Op::SetDrain);
        v.push(Op::SetDrop);
        v.push(Op::NewChannel);
        v.push(Op::OneShot);
        v.push(Op::OneShotClientLeft);
        v.retain(|o| self.applicable(o, max_queue, max_handles));
        v
    }

    pub fn ops(&self, max_queue: usize, max_handles: usize, with_proc: bool) -> Vec<Op> {
        let mut v = Vec::new();
        let nh = self.handles.len();
        for h in 0..nh {
            v.push(Op::Clone(h));
            v.push(Op::DropH(h));
            v.push(Op::SendData(h));
            v.push(Op::MoveThread(h));
            if with_proc {
                v.push(Op::MoveProc(h));
            }
            for via in 0..nh {
                v.push(Op::EmbedTx { what: h, via });
            }
        }
        for c in 0..self.chans.len() {
            for via in 0..nh {
                v.push(Op::EmbedRx { chan: c, via });
            }
            for how in [How::Blocking, How::Try, How::Timed0] {
                v.push(Op::Recv { chan: c, how });
            }
            v.push(Op::DropRx(c));
        }
        v.retain(|o| self.applicable(o, max_queue, max_handles));
        v
    }

    /// canonical form: handles of one channel in the same state are interchangeable; dropped
    /// handles, consumed messages and payload tags do not influence the future
    pub fn canon(&self) -> String {
        let mut s = String::new();
        fn msg_str(w: &World, m: usize, s: &mut String) {
            s.push('[');
            for it in &w.msgs[m] {
                match it {
                    Item::Data(_) => s.push('d'),
                    Item::Region(_) => s.push('g'),
                    Item::Tx(h) => s.push_str(&format!("T{}", w.handles[*h].chan)),
                    Item::Rx(c) => {
                        s.push_str(&format!("R{}", c));
                        s.push('<');
                        for q in &w.chans[*c].queue {
                            msg_str(w, *q, s);
                        }
                        s.push('>');
                    },
                }
            }
            s.push(']');
        }
        for (i, c) in self.chans.iter().enumerate() {
            s.push_str(&format!("c{}{}:", i, if c.oneshot { "o" } else { "" }));
            match c.rx {
                RState::Held => {
                    s.push('H');
                    for q in &c.queue {
                        msg_str(self, *q, &mut s);
                    }
                },
                RState::Dropped => s.push('X'),
                RState::InSet => {
                    s.push('S');
                    for q in &c.queue {
                        msg_str(self, *q, &mut s);
                    }
                },
                RState::InMsg(_) => s.push('M'), // its queue is printed where the message is
            }
            let mut held: BTreeMap<Loc, usize> = BTreeMap::new();
            for h in self.handles.iter().filter(|h| h.chan == i) {
                if let HState::Held(l) = h.st {
                    *held.entry(l).or_insert(0) += 1;
                }
            }
            s.push_str(&format!("{:?};", held));
        }
        s.push_str(&format!("max{}", self.max_chans));
        s
    }
}

// ---------------------------------------------------------------------------
// executing a path on the real API

#[derive(Serialize, Deserialize)]
pub enum W {
    Data(u32),
    Tx(IpcSender<Vec<W>>),
    Rx(IpcReceiver<Vec<W>>),
    Shm(ipc_channel::ipc::IpcSharedMemory),
}

fn region_bytes(tag: u32) -> Vec<u8> {
    crate::common::pattern(100 + (tag as usize % 7) * 1000, tag as u64)
}

struct ProcHandle {
    pid: i32,
    cmd: i32,
    ack: i32,
}

pub struct Exec {
    pub senders: BTreeMap<usize, IpcSender<Vec<W>>>,
    pub receivers: BTreeMap<usize, IpcReceiver<Vec<W>>>,
    procs: BTreeMap<usize, ProcHandle>,
    set: Option<ipc_channel::ipc::IpcReceiverSet>,
    set_ids: BTreeMap<u64, usize>,
}

impl Exec {
    pub fn new(nchan: usize) -> Result<Exec, String> {
        let mut e = Exec { senders: BTreeMap::new(), receivers: BTreeMap::new(), procs: BTreeMap::new(), set: None, set_ids: BTreeMap::new() };
        for c in 0..nchan {
            let (tx, rx) = ipc::channel::<Vec<W>>().map_err(|x| x.to_string())?;
            e.senders.insert(c, tx);
            e.receivers.insert(c, rx);
        }
        Ok(e)
    }

    fn on_thread<R: Send + 'static>(f: impl FnOnce() -> R + Send + 'static) -> R {
        std::thread::spawn(f).join().expect("helper thread panicked")
    }

    fn do_send(&mut self, w: &World, via: usize, val: Vec<W>) -> Result<bool, String> {
        match w.handles[via].st {
            HState::Held(Loc::Thread) => {
                let tx = self.senders.remove(&via).ok_or("no sender")?;
                let (tx, r) = Self::on_thread(move || {
                    let r = tx.send(val).is_ok();
                    (tx, r)
                });
                self.senders.insert(via, tx);
                Ok(r)
            },
            _ => Ok(self.senders.get(&via).ok_or("no sender")?.send(val).is_ok()),
        }
    }

    /// Perform `op` (decided on the model state `w` *before* the operation) and return what was
    /// observed, in model terms. `after` is the model state after the operation (ids of new
    /// handles, where received items go).
    pub fn perform(&mut self, w: &World, op: &Op, expect: &Expect) -> Result<Expect, String> {
        match op {
            Op::Clone(h) => {
                let n = w.handles.len();
                let c = self.senders.get(h).ok_or("no sender")?.clone();
                self.senders.insert(n, c);
                Ok(Expect::Done)
            },
            Op::DropH(h) => {
                match w.handles[*h].st {
                    HState::Held(Loc::Thread) => {
                        let tx = self.senders.remove(h).ok_or("no sender")?;
                        Self::on_thread(move || drop(tx));
                    },
                    HState::Held(Loc::Proc) => {
                        let p = self.procs.remove(h).ok_or("no process")?;
                        unsafe {
                            // even handles: tell the child to drop the handle and exit;
                            // odd handles: kill it (the kernel closes the descriptor)
                            if h % 2 == 0 {
                                let b = [1u8];
                                libc::write(p.cmd, b.as_ptr() as *const _, 1);
                                let mut a = [0u8];
                                libc::read(p.ack, a.as_mut_ptr() as *mut _, 1);
                            } else {
                                libc::kill(p.pid, libc::SIGKILL);
                            }
                            let mut st = 0;
                            libc::waitpid(p.pid, &mut st, 0);
                            libc::close(p.cmd);
                            libc::close(p.ack);
                        }
                    },
                    _ => {
                        self.senders.remove(h);
                    },
                }
                Ok(Expect::Done)
            },
            Op::SendData(h) => {
                let ok = self.do_send(w, *h, vec![W::Data(w.next_tag)])?;
                Ok(if ok { Expect::SendOk } else { Expect::SendErr })
            },
            Op::EmbedTx { what, via } => {
                let s = self.senders.remove(what).ok_or("no sender to embed")?;
                let ok = self.do_send(w, *via, vec![W::Data(w.next_tag), W::Tx(s)])?;
                Ok(if ok { Expect::SendOk } else { Expect::SendErr })
            },
            Op::EmbedRx { chan, via } => {
                let r = self.receivers.remove(chan).ok_or("no receiver to embed")?;
                let ok = self.do_send(w, *via, vec![W::Rx(r), W::Data(w.next_tag)])?;
                Ok(if ok { Expect::SendOk } else { Expect::SendErr })
            },
            Op::Recv { chan, how } => {
                let rx = self.receivers.get(chan).ok_or("no receiver")?;
                let res = match how {
                    How::Blocking => rx.recv().map_err(TryRecvError::IpcError),
                    How::Try => rx.try_recv(),
                    How::Timed0 => rx.try_recv_timeout(std::time::Duration::from_millis(0)),
                };
                match res {
                    Ok(items) => {
                        let want: Vec<Item> = if let Expect::Msg(m) = expect { m.clone() } else { vec![] };
                        Ok(Expect::Msg(self.place(items, &want)))
                    },
                    Err(TryRecvError::Empty) => Ok(Expect::Empty),
                    Err(TryRecvError::IpcError(IpcError::Disconnected)) => Ok(Expect::Disconnected),
                    Err(e) => Err(format!("receive returned an unexpected error: {:?}", e)),
                }
            },
            Op::DropRx(c) => {
                self.receivers.remove(c);
                Ok(Expect::Done)
            },
            Op::SetDrop => {
                self.set = None;
                self.set_ids.clear();
                Ok(Expect::Done)
            },
            Op::SendRegion(h) => {
                let t = w.next_tag;
                let reg = ipc_channel::ipc::IpcSharedMemory::from_bytes(&region_bytes(t));
                let ok = self.do_send(w, *h, vec![W::Shm(reg), W::Data(t)])?;
                Ok(if ok { Expect::SendOk } else { Expect::SendErr })
            },
            Op::SetAdd(c) => {
                let rx = self.receivers.remove(c).ok_or("no receiver to add")?;
                if self.set.is_none() {
                    self.set = Some(ipc_channel::ipc::IpcReceiverSet::new().map_err(|e| e.to_string())?);
                }
                let id = self.set.as_mut().unwrap().add(rx).map_err(|e| format!("set add: {}", e))?;
                if self.set_ids.insert(id, *c).is_some() {
                    return Err(format!("receiver set handed out id {} twice", id));
                }
                Ok(Expect::Done)
            },
            Op::SetDrain => {
                let want = match expect {
                    Expect::Events(e) => e.clone(),
                    _ => BTreeMap::new(),
                };
                let total: usize = want.values().map(|(m, c)| m.len() + *c as usize).sum();
                let mut got: BTreeMap<usize, (Vec<Vec<Item>>, bool)> = BTreeMap::new();
                let mut n = 0;
                while n < total {
                    let evs = self.set.as_mut().ok_or("no set")?.select().map_err(|e| format!("select failed: {}", e))?;
                    if evs.is_empty() {
                        return Err("select returned no event".into());
                    }
                    for ev in evs {
                        n += 1;
                        match ev {
                            ipc_channel::ipc::IpcSelectionResult::MessageReceived(id, m) => {
                                let c = *self.set_ids.get(&id).ok_or_else(|| format!("event for unknown id {}", id))?;
                                let items: Vec<W> = m.to().map_err(|e| format!("decode: {}", e))?;
                                let idx = got.get(&c).map(|g| g.0.len()).unwrap_or(0);
                                let wi: Vec<Item> = want.get(&c).and_then(|w| w.0.get(idx)).cloned().unwrap_or_default();
                                let seen = self.place(items, &wi);
                                got.entry(c).or_insert((vec![], false)).0.push(seen);
                            },
                            ipc_channel::ipc::IpcSelectionResult::ChannelClosed(id) => {
                                let c = self.set_ids.remove(&id).ok_or_else(|| format!("closed event for unknown id {}", id))?;
                                let e = got.entry(c).or_insert((vec![], false));
                                if e.1 {
                                    return Err(format!("channel {} reported closed twice", c));
                                }
                                e.1 = true;
                            },
                        }
                    }
                }
                Ok(Expect::Events(got))
            },
            Op::NewChannel => {
                let c = w.chans.len();
                let (tx, rx) = ipc::channel::<Vec<W>>().map_err(|x| x.to_string())?;
                self.senders.insert(w.handles.len(), tx);
                self.receivers.insert(c, rx);
                Ok(Expect::Done)
            },
            Op::OneShotClientLeft => {
                let (server, name) = ipc_channel::ipc::IpcOneShotServer::<Vec<W>>::new().map_err(|e| format!("one-shot new: {}", e))?;
                let tx = IpcSender::<Vec<W>>::connect(name).map_err(|e| format!("connect: {}", e))?;
                drop(tx);
                // (an accept that waits for ever is reported as a deadlock by the scheduler)
                match server.accept() {
                    Err(_) => Ok(Expect::Disconnected),
                    Ok(_) => Err("accept returned a first message although the client never sent one".into()),
                }
            },
            Op::OneShot => {
                let c = w.chans.len();
                let (server, name) = ipc_channel::ipc::IpcOneShotServer::<Vec<W>>::new().map_err(|e| format!("one-shot new: {}", e))?;
                let tx = IpcSender::<Vec<W>>::connect(name).map_err(|e| format!("connect: {}", e))?;
                tx.send(vec![W::Data(424242)]).map_err(|e| format!("first message: {}", e))?;
                let (rx, first) = server.accept().map_err(|e| format!("accept: {}", e))?;
                if first.len() != 1 || !matches!(first[0], W::Data(424242)) {
                    return Err("accept returned a different first message".into());
                }
                self.senders.insert(w.handles.len(), tx);
                self.receivers.insert(c, rx);
                Ok(Expect::Done)
            },
            Op::MoveThread(_) => Ok(Expect::Done),
            Op::MoveProc(h) => {
                // fork a child that keeps only this handle
                unsafe {
                    let mut p2c = [0i32; 2];
                    let mut c2p = [0i32; 2];
                    libc::pipe(p2c.as_mut_ptr());
                    libc::pipe(c2p.as_mut_ptr());
                    let pid = libc::fork();
                    if pid == 0 {
                        libc::close(p2c[1]);
                        libc::close(c2p[0]);
                        let mine = self.senders.remove(h);
                        self.senders.clear();
                        self.receivers.clear();
                        for (_, p) in std::mem::take(&mut self.procs) {
                            libc::close(p.cmd);
                            libc::close(p.ack);
                        }
                        // tell the parent that every other inherited endpoint is closed here
                        let ready = [2u8];
                        libc::write(c2p[1], ready.as_ptr() as *const _, 1);
                        let mut b = [0u8];
                        let n = libc::read(p2c[0], b.as_mut_ptr() as *mut _, 1);
                        if n == 1 {
                            drop(mine);
                            let a = [1u8];
                            libc::write(c2p[1], a.as_ptr() as *const _, 1);
                        }
                        libc::_exit(0);
                    }
                    libc::close(p2c[0]);
                    libc::close(c2p[1]);
                    let mut rdy = [0u8];
                    if libc::read(c2p[0], rdy.as_mut_ptr() as *mut _, 1) != 1 {
                        return Err("forked holder process died".into());
                    }
                    self.senders.remove(h);
                    self.procs.insert(*h, ProcHandle { pid, cmd: p2c[1], ack: c2p[0] });
                }
                Ok(Expect::Done)
            },
        }
    }

    /// place received endpoints where the model says they go; describe what arrived in model terms
    fn place(&mut self, items: Vec<W>, want: &[Item]) -> Vec<Item> {
        let mut seen = Vec::new();
        for (i, it) in items.into_iter().enumerate() {
            match it {
                W::Data(t) => seen.push(Item::Data(t)),
                W::Shm(m) => match want.get(i) {
                    Some(Item::Region(t)) if &*m == &region_bytes(*t)[..] => seen.push(Item::Region(*t)),
                    _ => seen.push(Item::Region(u32::MAX)),
                },
                W::Tx(s) => match want.get(i) {
                    Some(Item::Tx(h)) => {
                        self.senders.insert(*h, s);
                        seen.push(Item::Tx(*h));
                    },
                    _ => seen.push(Item::Tx(usize::MAX)),
                },
                W::Rx(r) => match want.get(i) {
                    Some(Item::Rx(c)) => {
                        self.receivers.insert(*c, r);
                        seen.push(Item::Rx(*c));
                    },
                    _ => seen.push(Item::Rx(usize::MAX)),
                },
            }
        }
        seen
    }

    /// non-destructive probe of every receiver we hold for which the model predicts no message
    pub fn probe(&self, w: &World) -> Result<(), String> {
        for (c, rx) in &self.receivers {
            let want = w.peek(*c);
            if matches!(want, Expect::Msg(_)) {
                continue;
            }
            let got = match rx.try_recv() {
                Ok(_) => "a message".to_string(),
                Err(TryRecvError::Empty) => "Empty".to_string(),
                Err(TryRecvError::IpcError(IpcError::Disconnected)) => "Disconnected".to_string(),
                Err(e) => format!("{:?}", e),
            };
            if got != format!("{:?}", want) {
                return Err(format!(
                    "channel {}: try_recv reports {} but {} live sender handle(s) exist in the ideal world, which says {:?}",
                    c,
                    got,
                    w.live_senders(*c),
                    want
                ));
            }
        }
        Ok(())
    }

    pub fn cleanup(&mut self) {
        for (_, p) in std::mem::take(&mut self.procs) {
            unsafe {
                libc::kill(p.pid, libc::SIGKILL);
                let mut st = 0;
                libc::waitpid(p.pid, &mut st, 0);
                libc::close(p.cmd);
                libc::close(p.ack);
            }
        }
    }
}

/// Replay `path` from scratch on the real API, checking every result against the model.
pub fn run_path(nchan: usize, path: &[Op], probe_each_step: bool) -> Result<(), String> {
    run_path_from(World::new(nchan), path, probe_each_step)
}

pub fn run_path_from(w0: World, path: &[Op], probe_each_step: bool) -> Result<(), String> {
    let nchan = w0.chans.len();
    let mut w = w0;
    let mut e = Exec::new(nchan)?;
    let r = (|| {
        for (i, op) in path.iter().enumerate() {
            let before = w.clone();
            let want = w.apply(op);
            let got = e.perform(&before, op, &want).map_err(|x| format!("step {} {:?}: {}", i, op, x))?;
            if got != want {
                return Err(format!("step {} {:?}: the implementation gave {:?}, the ideal channel gives {:?}", i, op, got, want));
            }
            if probe_each_step || i + 1 == path.len() {
                e.probe(&w).map_err(|x| format!("after step {} {:?}: {}", i, op, x))?;
            }
        }
        Ok(())
    })();
    e.cleanup();
    r
}
