//! Evidence files, replay files, known findings, verdict protocol.
#![allow(dead_code)]

use serde::{Deserialize, Serialize};
use serde_json::{json, Value};
use std::path::PathBuf;

pub fn verif_root() -> PathBuf {
    std::env::var("VERIF_ROOT").map(PathBuf::from).unwrap_or_else(|_| PathBuf::from("/verif"))
}

#[derive(Clone, Copy, Debug, PartialEq, Eq)]
pub enum Tier {
    Quick,
    Thorough,
}

impl Tier {
    pub fn name(&self) -> &'static str {
        match self {
            Tier::Quick => "quick",
            Tier::Thorough => "thorough",
        }
    }
    pub fn is_quick(&self) -> bool {
        *self == Tier::Quick
    }
}

pub fn seed() -> u64 {
    std::env::var("VERIF_SEED").ok().and_then(|s| s.parse::<i64>().ok()).map(|v| v as u64).unwrap_or(0)
}

#[derive(Clone, Debug, Serialize, Deserialize)]
pub struct KnownFinding {
    pub property: String,
    /// substring that must occur in the failure signature (case descriptor + failure text)
    pub key: String,
    /// "known" suppresses (prints KNOWN-FINDING), "fixed" suppresses nothing
    pub status: String,
    #[serde(default)]
    pub commit: Option<String>,
    pub what: String,
}

pub fn load_known(prop: &str) -> Vec<KnownFinding> {
    let p = verif_root().join("known_findings.json");
    let Ok(s) = std::fs::read_to_string(&p) else { return vec![] };
    let all: Vec<KnownFinding> = serde_json::from_str(&s).unwrap_or_default();
    all.into_iter().filter(|k| k.property == prop && k.status == "known").collect()
}

/// Collects the verdict of one check run.
pub struct Report {
    pub prop: String,
    pub tier: Tier,
    pub level: &'static str,
    pub t0: std::time::Instant,
    pub known: Vec<KnownFinding>,
    pub known_hit: Vec<bool>,
    pub violations: Vec<(String, Value)>,
    pub machinery: Vec<String>,
    pub coverage: serde_json::Map<String, Value>,
    pub assumptions: Vec<String>,
    pub samples: Vec<Value>,
}

impl Report {
    pub fn new(prop: &str, tier: Tier, level: &'static str) -> Report {
        let known = load_known(prop);
        let n = known.len();
        Report {
            prop: prop.to_string(),
            tier,
            level,
            t0: std::time::Instant::now(),
            known,
            known_hit: vec![false; n],
            violations: Vec::new(),
            machinery: Vec::new(),
            coverage: serde_json::Map::new(),
            assumptions: Vec::new(),
            samples: Vec::new(),
        }
    }

    /// Register a failing case. `signature` is matched against the known-findings keys;
    /// `replay` is what goes into the replay file.
    pub fn fail(&mut self, signature: &str, replay: Value) {
        for (i, k) in self.known.iter().enumerate() {
            if signature.contains(&k.key) {
                self.known_hit[i] = true;
                return;
            }
        }
        if self.violations.len() < 20 {
            self.violations.push((signature.to_string(), replay));
        }
    }

    pub fn machinery(&mut self, msg: impl Into<String>) {
        self.machinery.push(msg.into());
    }

    pub fn sample(&mut self, v: Value) {
        if self.samples.len() < 6 {
            self.samples.push(v);
        }
    }

    pub fn set(&mut self, k: &str, v: Value) {
        self.coverage.insert(k.to_string(), v);
    }

    pub fn add(&mut self, k: &str, n: u64) {
        let cur = self.coverage.get(k).and_then(|v| v.as_u64()).unwrap_or(0);
        self.coverage.insert(k.to_string(), json!(cur + n));
    }

    pub fn assume(&mut self, s: &str) {
        if !self.assumptions.iter().any(|a| a == s) {
            self.assumptions.push(s.to_string());
        }
    }

    /// Write evidence + replays, print verdict lines, return the exit code.
    pub fn finish(mut self) -> i32 {
        let root = verif_root();
        let wall = self.t0.elapsed().as_secs_f64();
        if !self.machinery.is_empty() && self.violations.is_empty() {
            for m in &self.machinery {
                println!("MACHINERY-ERROR property={} {}", self.prop, m);
            }
            // no evidence for a run whose engine failed
            return 2;
        }
        // violations were demonstrated on completed executions of the real code: they stand even
        // if other executions of the same run ran into engine trouble, which is only noted
        for m in &self.machinery {
            println!("MACHINERY-NOTE property={} {}", self.prop, m);
        }
        for (i, k) in self.known.iter().enumerate() {
            if self.known_hit[i] {
                println!("KNOWN-FINDING: property={} {}", self.prop, k.what);
            }
        }
        let mut paths = Vec::new();
        if !self.violations.is_empty() {
            let dir = root.join("replays").join(&self.prop);
            let _ = std::fs::create_dir_all(&dir);
            for (i, (sig, rep)) in self.violations.iter().enumerate() {
                let p = dir.join(format!("{}-{}.json", self.tier.name(), i));
                let doc = json!({"property": self.prop, "tier": self.tier.name(), "signature": sig, "replay": rep});
                let _ = std::fs::write(&p, serde_json::to_string_pretty(&doc).unwrap());
                paths.push(p);
            }
        }
        if !self.coverage.contains_key("samples") {
            let s = std::mem::take(&mut self.samples);
            self.coverage.insert("samples".into(), Value::Array(s));
        }
        let ev = json!({
            "property_id": self.prop,
            "tier": self.tier.name(),
            "seed": seed(),
            "level": self.level,
            "coverage": Value::Object(self.coverage.clone()),
            "assumptions": self.assumptions,
            "wall_s": wall,
            "violations": self.violations.len(),
            "known_findings_hit": self.known.iter().zip(&self.known_hit).filter(|(_, h)| **h).map(|(k, _)| k.what.clone()).collect::<Vec<_>>(),
        });
        let evdir = root.join("evidence");
        let _ = std::fs::create_dir_all(&evdir);
        let evp = evdir.join(format!("{}.json", self.prop));
        if let Err(e) = std::fs::write(&evp, serde_json::to_string_pretty(&ev).unwrap()) {
            println!("MACHINERY-ERROR property={} cannot write evidence: {}", self.prop, e);
            return 2;
        }
        if self.violations.is_empty() {
            println!(
                "OK property={} tier={} wall={:.1}s evidence={}",
                self.prop,
                self.tier.name(),
                wall,
                evp.display()
            );
            0
        } else {
            for (i, (sig, _)) in self.violations.iter().enumerate() {
                println!("VIOLATION property={} replay={}", self.prop, paths[i].display());
                println!("  what: {}", sig);
            }
            1
        }
    }
}

/// Deterministic position-dependent byte pattern: shifted, duplicated or swapped fragments differ.
pub fn pattern(len: usize, salt: u64) -> Vec<u8> {
    let mut v = Vec::with_capacity(len);
    let mut x = salt.wrapping_mul(0x9e3779b97f4a7c15) ^ (len as u64).wrapping_mul(0xbf58476d1ce4e5b9) ^ 0x1234_5678;
    for i in 0..len {
        if i % 8 == 0 {
            x ^= x << 13;
            x ^= x >> 7;
            x ^= x << 17;
        }
        v.push((x >> ((i % 8) * 8)) as u8);
    }
    v
}

pub fn first_diff(a: &[u8], b: &[u8]) -> Option<usize> {
    if a.len() != b.len() {
        return Some(a.len().min(b.len()));
    }
    a.iter().zip(b).position(|(x, y)| x != y)
}
