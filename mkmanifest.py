#!/usr/bin/env python3
# Regenerates MANIFEST.json from the table below (kept next to the checks so the two stay in step).
import json

TRUST = ("Trusted: the Linux kernel running here (no kernel model: every execution is on the real kernel), rustc/std, mio, "
         "crossbeam, bincode, serde; that the harness's raw-syscall forwarding equals glibc's wrappers (x86-64); ")
E1NOTE = (TRUST + "scheduling points are intercepted system calls and futex waits, user-space-only steps between them are atomic "
          "(the transport communicates only through system calls; router/async pair every queue operation with a system call); "
          "coverage is all schedules within the stated deviation bound for the stated scenarios, nothing beyond; no weak-memory effects.")
E2NOTE = (TRUST + "coverage is the enumerated finite case space stated in the evidence `rule`, nothing beyond; macOS/Windows back ends "
          "cannot execute here.")

CHECKS = {
 "C01": ("exploration",
   "Bounded-exhaustive enumeration: every byte length 0..=F1+3F+16 at the 4608-byte buffer configuration, +-16 windows around each k x packet capacity (k<=4 quick / <=8 thorough; capacities measured from the system-call trace, not assumed) for seven (eleven) fake and kernel-enforced SO_SNDBUF configurations, a serde value grammar of depth 2 plain and padded to packet boundaries, on the os, memfd and in-process builds; each case is a real send/recv on the real kernel compared byte for byte.",
   E2NOTE, "bounded-exhaustive input/configuration enumeration on the real code (E2); blocking cases under the controlled scheduler", "DESIGN.md §4 C01"),
 "C02": ("model_checking",
   "Stateless model checking of the implementation: every schedule with <=2 deviations (quick; 3 for selected scenarios thorough) of 2-3 sender tasks (cloned handle or own descriptor) x two-message size mixes {small, exactly one packet, 2, 3 packets} x receiver behaviour {blocking, try_recv polling, receiver set, delayed} runs on the real code and kernel under a controlled scheduler; oracle: exactly-once, payload integrity, and order for every pair with return(a)<begin(b) on the logical clock. Plus every packet-level interleaving of two forked sender processes (gated before each transmission), and an abstract packet-protocol model searched exhaustively (<=3 senders x 2 messages x 3 packets) and bound to the code both ways: every free execution's system-call trace must be a path of the model with matching payload tags, and every model transition is covered by a model path replayed on the implementation in the scheduler's directed mode.",
   E1NOTE + " A trace that no longer maps onto the packet model prints MODEL-DRIFT and is not a verdict.", "controlled-scheduler stateless exploration with iterative deviation (preemption) bounding (E1) + gated packet-level process interleavings (E2g) + explicit-state packet-protocol model with two-way trace conformance (E3)", "DESIGN.md §3.5, §4 C02"),
 "C07": ("model_checking",
   "Stateless model checking of the implementation: every schedule with <=2 deviations (3 for single-route scenarios, thorough) of registering / sending / dropping tasks against the real router thread of a private RouterProxy: 1-3 routes, callback (with drop guard) and crossbeam-forwarding, 0-2 messages queued before registration and 0-2 after, registered from one or two tasks; oracle: per-route handler log equals that route's sends in order and nothing else, guard dropped exactly once after the last message, forwarding receivers disconnect, no deadlock, no panic on any thread.",
   E1NOTE, "controlled-scheduler stateless exploration with deviation bounding (E1)", "DESIGN.md §4 C07"),
 "C13": ("fault_enumeration",
   "Exhaustive fault enumeration: all 2^7 (quick) / 2^12 (thorough) ENOBUFS patterns over the first transmission attempts of one send x {<=2000 B, one packet >2000 B, 2, 3, 6 packets} x {plain, sender+region attached} x {4608-byte, system default} buffer, with a reader task under the scheduler; plus the first 8 (32) patterns on one- and two-packet messages carrying 62..64 attachments, and platform-level sends (exact attachment lists visible) of 12 lengths from 2001 bytes to two packets under the first 8 (64) patterns; oracle: Ok => exact payload, working attachments, intact follow-on message, transmitted bytes == accepted bytes; Err allowed; never a hang.",
   E2NOTE, "exhaustive fault-pattern enumeration at the libc boundary (E2) under the controlled scheduler's default schedule", "DESIGN.md §4 C13"),
 "C14": ("exploration",
   "Bounded-exhaustive enumeration of serialisation programs (attach sender/receiver/region, data, fail here, nested send of a sub-program received from inside the outer deserialisation) of length <=3, nesting depth <=2 (3 thorough); oracle: accepted messages carry exactly their own attachments in place, endpoints of failed sends disconnect once program handles are gone, two follow-up messages on the same thread arrive intact, descriptor ledger empty.",
   E2NOTE, "bounded-exhaustive program enumeration on the real code (E2), single task under the scheduler for exact hang detection", "DESIGN.md §4 C14"),
 "C15": ("exploration",
   "Bounded-exhaustive enumeration of attachment counts (12 boundary counts quick, every count 0..=300 thorough) x 4 mixtures x 5 data-part sizes, plus counts 61..65 while the first transmission attempts are refused with ENOBUFS; oracle: refused => channel still usable; accepted => value arrives with every attachment probed; a receive that would hang is an exact deadlock report.",
   E2NOTE, "bounded-exhaustive input enumeration on the real code (E2)", "DESIGN.md §4 C15"),
 "C16": ("exploration",
   "Bounded-exhaustive enumeration: all 144 (sent type, expected type) pairs of a 12-type family, every single-byte substitution/truncation/extension of each valid encoding, crafted attachment indices (out of range, reused), unused attachment lists, select-and-drop and bytes-receiver paths, the same decodes right after another message failed to decode on the thread, each in a sacrificial child whose allocator refuses requests above 1 GiB; oracle: value or error, no panic/abort/signal, attachments released (channels disconnect, ledger empty, no bad close).",
   E2NOTE, "bounded-exhaustive input/mutation enumeration on the real code (E2)", "DESIGN.md §4 C16"),
 "C17": ("model_checking",
   "Stateless model checking of the implementation: every schedule with <=2 deviations of 0-2 live routes (callback / forwarding, optionally a message in flight) stopped by shutdown() from 1-2 tasks or by dropping the proxy, optionally racing add_route, followed by further sends and a wait for quiescence; oracle: no callback after the stop, every callback dropped exactly once (at shutdown return / at quiescence), forwarding receivers disconnected, late routes never invoked, no panic on any thread, no deadlock.",
   E1NOTE, "controlled-scheduler stateless exploration with deviation bounding (E1)", "DESIGN.md §4 C17"),
 "C03": ("model_checking",
   "Explicit-state BFS over the reference model's state graph (clone / drop / send / embed sender / embed receiver / three receive variants / drop receiver / move handle to another thread / to a forked process; canonical-state dedup; quick: every history up to depth 4 on 3 channels and up to depth 7 on 2 channels; thorough: depth 6 / 3 channels, depth 5 / 4 channels, depth 12 / 2 channels) with every transition replayed from scratch on the real API and every observable result compared, plus non-destructive disconnection probes; and stateless exploration (<=2/3 deviations) of the final drops racing a blocked, timed or polling receive.",
   E1NOTE + " Model graphs are explored completely up to a depth bound (reported); a state cap, if hit, is reported and makes exhaustive=false.", "explicit-state model search with full trace conformance replay on the implementation + controlled-scheduler exploration (E1)", "DESIGN.md §4 C03"),
 "C06": ("model_checking",
   "Stateless model checking (<=2 deviations incl. EINTR answers to epoll_wait) of sender tasks racing the selecting task with 2-3 members and a member added after the first select; plus scripted single-task histories (1..12/64 ready members, traffic queued before/after add, all size sequences up to length 2/3 for two members, bursts of 63..150 messages between waits, backlogs of 10..64 messages on two or three members at once with the newer member ready first, re-adding after closures) where a select that blocks while an event is pending is an exact deadlock.",
   E1NOTE, "controlled-scheduler stateless exploration with deviation bounding (E1) + bounded-exhaustive scripted histories", "DESIGN.md §4 C06"),
 "C09": ("exploration",
   "Bounded-exhaustive enumeration of send streams (<=3/4 sends, small / 3-packet, plain / with attachments) x drop position x dropper (same thread, other thread, forked process that exits) x how the receiver is held (directly, inside a carrier that is dropped, in transit and unpacked), SIGPIPE at its default disposition, blocked sends detected exactly; a receiver whose only handle travels in a carrier message whose sender is killed before transport call k, or that arrives but cannot be decoded, or that was serialised by reference and whose delivered copy is dropped (sends must then fail); plus the drop racing the stream under E1.",
   E2NOTE, "bounded-exhaustive history enumeration (E2) + controlled-scheduler exploration (E1)", "DESIGN.md §4 C09"),
 "C10": ("model_checking",
   "Stateless model checking (<=2/3 deviations, timer firings as explicit alternatives) of try_recv / try_recv_timeout(d) [+ a second call] followed by blocking recv against a sending or dropping task; plus every call sequence of length <=3/4 over {recv, try_recv, try_recv_timeout(d)} x pre-actions, each optionally ended by a blocking recv that must block (exact), with virtual timers (the virtual clock advances by what each timed wait asked for; 'empty' before the requested time is a violation) and the poll(2) argument checked; 5 real-time lower-bound cases; all of it on the OS build and on the in-process build (where a yielding task may also keep the processor, one deviation per run of yields, so that the spin-then-park back-off is explored up to parking).",
   E1NOTE, "controlled-scheduler stateless exploration with virtual timers (E1) + bounded-exhaustive call sequences", "DESIGN.md §4 C10"),
 "C11": ("exploration",
   "Bounded-exhaustive enumeration of operation sequences (length <=3 quick / 4 thorough over 18 public-API operations incl. failing ones) x drop order, with a descriptor/mapping ledger at the libc boundary in no-reuse numbering mode, /proc/self/fd, /proc/self/maps and temp-root comparison, close-on-exec-at-creation tracking and an exec'ed child that lists what it inherited.",
   E2NOTE, "bounded-exhaustive operation-sequence enumeration with a libc-boundary resource ledger (E2)", "DESIGN.md §4 C11"),
 "C12": ("fault_enumeration",
   "Exhaustive crash-point enumeration with real processes: the sending process is SIGKILLed before its k-th transport system call for every k (0..=N, N measured), message shapes 1..6 (thorough: 1..8 and 12) packets x attachments x preceding message x surviving sender in another process x observer (blocking recv where due, try_recv, try_recv_timeout, receiver set, router callback, receiver already blocked while the sender dies); oracle: completed messages intact, interrupted one intact or not a message, 'disconnected' only without survivor, survivor's message arrives, nothing hangs.",
   E2NOTE, "exhaustive crash-point enumeration at the system-call boundary with real forked processes", "DESIGN.md §4 C12"),
 "C18": ("exploration",
   "Memory-safety monitors as oracles over bounded-exhaustive shape sets (C01 boundary windows, C13 ENOBUFS patterns, C15 0..66 attachments, C12 crash indices, regions of every boundary length incl. platform-level zero length): AddressSanitizer build with kernel-boundary range checks re-implemented in the interposer, two allocation fill bytes on the plain build, debug assertions and core ub_checks everywhere.",
   E2NOTE + " ASan detects only errors on executed paths of the enumerated shapes.", "bounded-exhaustive shape enumeration executed under AddressSanitizer / fill-differential monitors", "DESIGN.md §4 C18"),
 "C04": ("exploration",
   "Bounded-exhaustive enumeration: every sequence of length <=3 (5 thorough; covering family of length 4 quick) over eight item kinds (sender, receiver, opaque sender/receiver, bytes sender/receiver, region, data), flat and nested into Option/tuple/map positions, in a small and a 3-packet message; 0..63 endpoints per message; transfer chains of a receiver over 1..3 (5) hops (same thread, other thread, forked process) with a backlog before, in transit, between and after hops; every received endpoint probed with a nonce against the channel attached at that position.",
   E2NOTE, "bounded-exhaustive input/history enumeration on the real code (E2)", "DESIGN.md §4 C04"),
 "C05": ("exploration",
   "Bounded-exhaustive enumeration of region lengths {0,1,2,P-1,P,P+1,2P-1,2P,2P+1,1 MiB,(32 MiB)} x constructor x 0..3 clones x reader (same process / forked child) x read moment (on receipt / after all sender-side copies and the carrier are gone), ordered pairs/triples and rotations of up to 4 (8) regions per message, on the os, memfd and in-process builds.",
   E2NOTE, "bounded-exhaustive input/configuration enumeration on the real code (E2) on three builds", "DESIGN.md §4 C05"),
 "C08": ("model_checking",
   "Stateless model checking (<=2/3 deviations) of a server task (new, accept) against a client task (connect, 1-3 messages of mixed size incl. attachments, drop) so that accept-first, connect-first, sends-before-accept and client-finished-before-accept all arise as schedules, with a fake and with a kernel-enforced small send buffer; plus forked clients that exit before accept (1..5/20 messages), 1..50/200 servers alive at once, servers dropped unused, exec'ed child while a server is alive, a two-way bootstrap (the client's first message names a second server it created after connecting), rendezvous files counted against servers still alive; oracle: first message + rest in order then disconnected, distinct names, empty temp root and no listening descriptor afterwards.",
   E1NOTE, "controlled-scheduler stateless exploration (E1) + sequential process-level cases", "DESIGN.md §4 C08"),
 "C19": ("model_checking",
   "Explicit-state BFS over the reference model (ideal unbounded FIFO channels with counted handles, endpoints in transit, regions, a receiver set, channel creation plain and through a one-shot server, a one-shot client that leaves without sending); every transition is one program executed from scratch on the os, memfd and in-process builds with every observable result compared with the model (values, order, empty, disconnected, send failures; select results per member); plus a family of long-queue programs (31..64 queued on one channel [3..64 thorough], consumed by each receive variant one step past the end or through the set, sender kept or dropped) and 12 queue-only programs with larger messages on the three builds (the OS builds block in send when the socket buffer is full: a recorded known finding, printed as KNOWN-FINDING, exit 0).",
   TRUST + "the model graph is explored completely up to depth 6 with <=2 channels (quick) / depth 7 with <=3 channels (thorough), 2 queued messages, 4 live handles; a state cap, if hit, is reported and makes exhaustive=false; agreement between builds is via agreement with the same model.", "explicit-state model search with full trace conformance replay on three builds of the implementation", "DESIGN.md §4 C19"),
 "C20": ("model_checking",
   "Stateless model checking (<=2 deviations, 3 for single-stream scenarios thorough; scheduling points before every system call/futex wait and after every transmission) of tasks that convert 1-2 receivers into streams, feed and consume them (block_on or a hand-written poll loop with a parking waker) against the real routing thread; oracle: each stream yields its channel's messages once, in order, then ends; a Pending poll is followed by a wake of the waker of the most recent poll (the manual loop uses a fresh waker for every poll; else exact deadlock); streams do not influence one another.",
   E1NOTE, "controlled-scheduler stateless exploration with deviation bounding (E1)", "DESIGN.md §4 C20"),
}



NOT_YET = "check under construction in this session (see DESIGN.md §4); not yet claimed"

def main():
    props = [json.loads(l)['id'] for l in open('/verif/properties.jsonl')]
    m = {
     "version": 1,
     "setup_cmd": "./vc setup",
     "hooks": {
      "guard": "ipc_channel_verif",
      "enable": "none needed: the harness binary defines the libc entry points itself (link-time interposition), so /repo is built unmodified as a path dependency; the cfg name is reserved and currently unused",
      "baseline_off_cmd": "cd /repo && cargo nextest run --workspace --no-fail-fast --tool-config-file pb:/w/lib/nextest.toml --profile pb --test-threads 8 --offline",
      "source_commits": [],
      "add_only": True
     },
     "engines": [
      {"name": "E1", "path": "harness/src/sched.rs, harness/src/explore.rs, harness/src/props/e1.rs",
       "serves_properties": [p for p in props if p in CHECKS and CHECKS[p][0] == "model_checking"],
       "kind_free_text": "stateless controlled-scheduler exploration of the real code on the real kernel: one task runs at a time, scheduling points at intercepted system calls/futex waits, all schedules with <=B deviations (preemptions, timer firings, EINTR) enumerated by DFS; each execution in a fresh forked child; deadlock detected exactly"},
      {"name": "E3", "path": "harness/src/pmodel.rs, harness/src/props/c02.rs (e3), harness/src/sched.rs (directed mode)",
       "serves_properties": ["C02"],
       "kind_free_text": "explicit-state search of an abstract packet-protocol model; impl-subset-of-model by stepping real system-call traces through it, model-subset-of-impl by replaying a covering set of model paths on the implementation under a directed scheduler"},
      {"name": "model+conformance", "path": "harness/src/model.rs, harness/src/props/c03.rs, harness/src/props/c19.rs",
       "serves_properties": ["C03", "C19"],
       "kind_free_text": "explicit-state BFS over the reference model of ideal channels (canonical-state dedup); every transition replayed from scratch as a program on the real API (three builds for C19) with every observable result compared"},
      {"name": "E2", "path": "harness/src/props/mod.rs (sweep, sweep_batched), harness/src/interpose.rs",
       "serves_properties": [p for p in props if p in CHECKS and CHECKS[p][0] != "model_checking"],
       "kind_free_text": "bounded-exhaustive enumeration of inputs / histories / fault patterns / crash points; each case executes the public API in a forked child under the libc-boundary interposer (ledger, fake/real SO_SNDBUF, ENOBUFS plan, crash index)"}
     ],
     "checks": [],
     "not_applicable": [],
     "notes": "All checks are `./vc <id> <tier>`: it rebuilds the harness variants (os, memfd, inproc, asan) against /repo's current working tree and runs the exploration. Exit 0 held / 1 VIOLATION / 2 machinery error (never a verdict)."
    }
    INPROC_TOO = {
      "C02": " The thread part (schedules of senders against each receiver behaviour) also runs on the in-process build.",
      "C03": " Model graph (without move-to-process operations) and races also run on the in-process build.",
      "C04": " All cases except chains through a forked process also run on the in-process build.",
      "C06": " Schedules and scripted histories also run on the in-process build.",
      "C07": " The same scenarios also run on the in-process build.",
      "C17": " The same scenarios also run on the in-process build.",
      "C20": " The same scenarios also run on the in-process build.",
      "C16": " All cases also run on the in-process build (eight type-pair cases hit a recorded known finding there: KNOWN-FINDING, exit 0).",
      "C08": " Server/client schedules, many-servers and dropped-unused cases also run on the in-process build (registry rendezvous).",
      "C09": " Streams (without the forked holder and the crashing carrier) and races also run on the in-process build.",
    }
    INPROC_NOTE = (" On the in-process build there are no system calls to schedule at: scheduling points are futex waits, thread start/join, "
                   "the yields of spin-then-park back-offs (a yielding task may also keep the processor until it blocks: one deviation) and explicit harness points before each library operation.")
    for p in props:
        if p in CHECKS:
            cat, text, note, tech, ref = CHECKS[p]
            if p in INPROC_TOO:
                text = text + INPROC_TOO[p]
                note = note + INPROC_NOTE
            if p == "C10":
                note = note + INPROC_NOTE
            if p in ("C01", "C05", "C08", "C12", "C15"):
                text = text + " This check is cheap (seconds): the quick tier runs the thorough tier's cases as well."
            m["checks"].append({
              "property_id": p, "quick_cmd": "./vc %s quick" % p, "thorough_cmd": "./vc %s thorough" % p,
              "evidence_file": "evidence/%s.json" % p, "replay_cmd_template": "./vc replay {path}", "engine": "vcheck",
              "level_claimed": {"category": cat, "text": text, "design_ref": ref}, "level_note": note, "technique": tech})
        else:
            m["not_applicable"].append({"property_id": p, "reason": NOT_YET})
    json.dump(m, open('/verif/MANIFEST.json', 'w'), indent=1)

main()
