#!/opt/veriftools/pyvenv/bin/python3
# validate MANIFEST.json and all evidence files against the given schemas
import json,sys,glob,jsonschema
ok=True
try:
    jsonschema.validate(json.load(open('/verif/MANIFEST.json')),json.load(open('/root/.vp/MANIFEST.schema.json')))
except Exception as e:
    ok=False; print('MANIFEST invalid:',str(e)[:300])
es=json.load(open('/root/.vp/EVIDENCE.schema.json'))
for f in sorted(glob.glob('/verif/evidence/*.json')):
    try: jsonschema.validate(json.load(open(f)),es)
    except Exception as e:
        ok=False; print(f,'invalid:',str(e)[:300])
print('valid' if ok else 'INVALID')
sys.exit(0 if ok else 1)
